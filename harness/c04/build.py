"""C04: construction of a SELECT specification on pypika's SQLite builder, with the clause-adding calls issued in any
legal order (kinds interleaved at random, relative order inside a kind kept -- the orders C08 allows), and window
functions (pypika.analytics)."""
import random

from harness import terms_family as tf
from harness import queries_family as qf


def build_term(t):
    if t[0] != "win":
        return tf.build(t)
    import pypika.analytics as an
    from pypika import Order
    _, fname, args, part, obs, frame, alias = t
    cls = {"RANK": an.Rank, "DENSE_RANK": an.DenseRank, "ROW_NUMBER": an.RowNumber, "SUM": an.Sum, "COUNT": an.Count,
           "MIN": an.Min, "MAX": an.Max, "AVG": an.Avg}[fname]
    f = cls(*[tf.build(a) for a in args])
    if part:
        # PARTITION BY built by chained over() calls: one call per term for an even number of terms, over(p0).over(rest...)
        # for an odd number (so a single call with several terms is exercised as well); ORDER BY is one orderby() per term
        ps = [tf.build(p) for p in part]
        groups = [[x] for x in ps] if len(ps) % 2 == 0 else [ps[:1]] + ([ps[1:]] if ps[1:] else [])
        for g in groups:
            f = f.over(*g)
    for o, d in obs:
        f = f.orderby(tf.build(o), **({"order": getattr(Order, d)} if d else {}))
    if frame is not None:
        def edge(e):
            if e == "unbounded_preceding":
                return an.Preceding()
            if e == "unbounded_following":
                return an.Following()
            if e == "current":
                return an.CURRENT_ROW
            return an.Preceding(int(e[1])) if e[0] == "preceding" else an.Following(int(e[1]))
        f = getattr(f, frame[0])(edge(frame[1]), edge(frame[2]))
    if not part and not obs and frame is None:
        f = f.over()
    return f.as_(alias) if alias is not None else f


class Builder:
    """order: None = the fixed order of queries_family.build_query; otherwise a seed for the interleaving"""

    def __init__(self, order=None):
        self.rng = None if order is None else random.Random("c04-order-%s" % (order,))
        self.trace = []

    def item(self, it):
        import pypika.terms as T
        import pypika.enums as E
        k = it[0]
        if k == "t":
            return build_term(it[1])
        if k == "sub":
            return self.query(it[1])
        if k == "in":
            c = T.ContainsCriterion(build_term(it[1]), self.query(it[2]))
            return c.negate() if it[3] else c
        if k == "exists":
            c = T.ExistsCriterion(self.query(it[1]))
            return c.negate() if it[2] else c
        if k == "cmp":
            cls = E.Equality if it[1] in tf.EQUALITY else E.Matching
            return T.BasicCriterion(getattr(cls, it[1]), build_term(it[2]), self.query(it[3]))
        if k == "func":
            return T.Function(it[1], *[self.item(a) for a in it[2]], alias=it[3])
        if k == "cplx":
            return T.ComplexCriterion(getattr(E.Boolean, it[1] + "_"), self.item(it[2]), self.item(it[3]))
        if k == "not":
            return T.Not(self.item(it[1]))
        raise ValueError(k)

    def coin(self):
        return self.rng is not None and self.rng.random() < 0.5

    def arg(self, it, ints=False):
        """an argument of select / groupby / orderby: the Term, or -- for the shapes the API accepts in another form --
        the column NAME of a field bound to the first FROM item, "*" for the bare star, the int of a positional key"""
        if it[0] == "t" and self.coin():
            t = it[1]
            if t[0] == "field" and t[3] is None and t[2] is not None and t[2][0] == "#0" and t[2][2] is None:
                return t[1]
            if t[0] == "star" and t[1] is None and not ints:
                return "*"
            if ints and t[0] == "vali" and t[2] is None:
                return int(t[1])
        return self.item(it)

    @staticmethod
    def on_field_names(it, jidx):
        """column names when the ON item is  #0.c = #j.c [AND ...]  (the shape Joiner.on_field builds)"""
        if it[0] != "t":
            return None
        out = []

        def walk(t):
            if t[0] == "cplx" and t[1] == "and" and t[4] is None:
                return walk(t[2]) and walk(t[3])
            if t[0] == "basic" and t[1] == "eq" and t[4] is None and t[2][0] == "field" and t[3][0] == "field":
                l, r = t[2], t[3]
                if l[1] == r[1] and l[3] is None and r[3] is None and l[2] == ["#0", [], None] and r[2] == ["#%d" % jidx, [], None]:
                    out.append(l[1])
                    return True
            return False
        return out if walk(it[1]) else None

    def source(self, s):
        from pypika import AliasedQuery
        if s[0] == "t":
            return tf.mk_table(s[1])
        if s[0] == "q":
            return self.query(s[1])
        return AliasedQuery(s[1])

    def query(self, s):
        import pypika.enums as E
        from pypika import Order
        Q = qf.qclass(s["cls"])
        fobjs = [self.source(x) for x in s.get("from", [])]
        jobjs = [self.source(j[1]) for j in s.get("joins", [])]
        q = Q._builder()
        for name, sub in s.get("with", []):
            q = q.with_(self.query(sub), name)
        for n, (x, o) in enumerate(zip(s.get("from", []), fobjs)):
            if self.coin() and x[0] == "t" and not x[1][1] and x[1][2] is None:
                q = q.from_(x[1][0])            # the string form: from_("t")
                fobjs[n] = q._from[-1]          # fields of the specification bind to the Table pypika made
            else:
                q = q.from_(o)
        nfrom = len(fobjs)
        calls = []      # (kind, function q -> q)

        def join_call(j, o):
            how, _, cond = j

            def f(q):
                jn = q.join(o, getattr(E.JoinType, how))
                if cond[0] == "on":
                    names = self.on_field_names(cond[1], nfrom + jpos[id(j)])
                    if names and self.coin():
                        return jn.on_field(*names)       # on_field("a") == ON <first FROM item>.a = <joined item>.a
                    return jn.on(self.item(cond[1]))
                if cond[0] == "using":
                    return jn.using(*cond[1])
                return jn.cross()
            return f
        jpos = {id(j): n for n, j in enumerate(s.get("joins", []))}
        for j, o in zip(s.get("joins", []), jobjs):
            calls.append(("join", join_call(j, o)))
        if s.get("distinct"):
            calls.append(("distinct", lambda q: q.distinct()))
        sels = s.get("selects", [])
        if sels:
            cut = len(sels)
            if self.rng is not None and len(sels) > 1 and self.rng.random() < 0.5:
                cut = self.rng.randrange(1, len(sels))
            for part in (sels[:cut], sels[cut:]):
                if part:
                    calls.append(("select", lambda q, part=part: q.select(*[self.arg(i) for i in part])))
        if s.get("where") is not None:
            w = s["where"]
            parts = conjuncts(w) if (s.get("where_split") or self.coin()) else [w]
            # where(a).where(b).where(c) == where((a & b) & c): one call per conjunct of the left-nested top-level AND
            for part in parts:
                calls.append(("where", lambda q, part=part: q.where(self.item(part))))
        for g in s.get("groupby", []):
            calls.append(("groupby", lambda q, g=g: q.groupby(self.arg(g, ints=True))))
        if s.get("having") is not None:
            calls.append(("having", lambda q: q.having(self.item(s["having"]))))
        for it, d in s.get("orderby", []):
            calls.append(("orderby", lambda q, it=it, d=d: q.orderby(self.arg(it, ints=True), **({"order": getattr(Order, d)} if d else {}))))
        if s.get("limit") is not None:
            calls.append(("limit", lambda q: q.limit(s["limit"])))
        if s.get("offset") is not None:
            calls.append(("offset", lambda q: q.offset(s["offset"])))
        if s.get("for_update"):
            calls.append(("for_update", lambda q: q.for_update()))
        if self.rng is not None:
            calls = interleave(calls, self.rng)
        self.trace.append([k for k, _ in calls])

        def rest(q=q):
            for _, f in calls:
                q = f(q)
            if s.get("alias") is not None:
                q = q.as_(s["alias"])
            return q
        return qf._with_sources(fobjs + jobjs, rest)


def conjuncts(w):
    """the conjuncts of a left-nested top-level AND, at item level (["cplx","and",L,R]) or term level"""
    if w[0] == "cplx" and w[1] == "and":
        return conjuncts(w[2]) + [w[3]]
    if w[0] == "t" and w[1][0] == "cplx" and w[1][1] == "and" and w[1][4] is None:
        return conjuncts(["t", w[1][2]]) + [["t", w[1][3]]]
    return [w]


def interleave(calls, rng):
    """a random permutation that keeps the relative order of the calls of one kind"""
    kinds = [k for k, _ in calls]
    slots = list(kinds)
    rng.shuffle(slots)
    queues = {}
    for k, f in calls:
        queues.setdefault(k, []).append((k, f))
    return [queues[k].pop(0) for k in slots]


def _plain_values(items):
    """python values when every item of an IN list is a constant the API would wrap itself (int / str / None)"""
    out = []
    for x in items:
        if x[0] == "vali" and x[2] is None:
            out.append(int(x[1]))
        elif x[0] == "vals" and x[2] is None:
            out.append(x[1])
        elif x[0] == "null" and x[1] is None:
            out.append(None)
        else:
            return None
    return out


def render(spec, order=None):
    b = Builder(order)
    orig = tf.build

    def build_with_api_forms(t):
        # IN lists of plain constants go through Term.isin([...]) / Term.notin([...]) (the form users write) half of the
        # time; tf.build constructs ContainsCriterion directly.  tf.build recurses through the module global, so nested
        # terms take this path as well.
        if t[0] == "in" and t[4] is None and t[2][0] == "tuple" and t[2][2] is None and b.coin():
            vals = _plain_values(t[2][1])
            if vals is not None:
                term = tf.build(t[1])
                return term.notin(vals) if t[3] else term.isin(vals)
        # a column of a source in the subscript spelling: table["col"], subquery["col"], aliased_query["col"]
        if t[0] == "field" and t[2] is not None and b.coin():
            f = tf.mk_table(t[2])[t[1]]
            return f.as_(t[3]) if t[3] is not None else f
        return orig(t)
    tf.build = build_with_api_forms
    try:
        return str(b.query(spec)), b.trace
    except Exception as e:  # noqa
        return "!" + type(e).__name__ + ": " + str(e)[:200], b.trace
    finally:
        tf.build = orig
