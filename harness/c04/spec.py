"""C04 generator of SQLite-executable SELECT specifications (format of harness/queries_family.py + the oracle-only
window term).  Every expression is well typed (int / str / bool), every sub-query that feeds a scalar position is an
aggregate (one row), every LIMIT/OFFSET comes with an ORDER BY covering the whole select list, GROUP BY statements
select only group keys and aggregates -- so that the result is a function of the data ("on any data")."""
from harness.c04.sqlite_ref import INT_COLS, COLS, MAIN_TABLES, Ref

CLS = "SQLLiteQuery"
ALIASES = ["al", "n", "total", "b", "c", "id"]        # b / c / id collide with real column names on purpose
AGG = ["SUM", "COUNT", "MIN", "MAX", "AVG"]
JOIN_TYPES = ["inner", "left", "right", "outer", "left_outer", "right_outer", "full_outer"]


def col_type(c):
    return "str" if c == "s" else "int"


class Src:
    """a source of a statement under construction: its spec, its index and the columns it offers (name -> type)"""

    def __init__(self, spec, cols, tref=None):
        self.spec = spec
        self.cols = cols
        self.tref = tref      # concrete tref for plain tables (used by correlated references)


class SGen:
    def __init__(self, rng, p_subq=0.3, max_depth=2, p_alias=0.35, p_defect=0.0, p_with=0.2, p_sub_operand=0.03):
        self.r = rng
        self.p_subq = p_subq
        self.max_depth = max_depth
        self.p_alias = p_alias
        self.p_with = p_with
        self.p_sub_operand = p_sub_operand    # rate of the scalar sub-query SELECT "x" FROM "u" as an operand
        self.p_defect = p_defect          # rate of the shapes behind the known findings (0 in the clean stream)

    # ------------------------------------------------------------------ leaves
    def field(self, srcs, typ, unbound_ok):
        cands = [(i, c) for i, s in enumerate(srcs) for c, ty in s.cols.items() if ty == typ]
        if not cands:
            return None
        i, c = self.r.choice(cands)
        if unbound_ok and len(srcs) == 1 and self.r.random() < 0.25:
            return ["field", c, None, None]
        return ["field", c, ["#%d" % i, [], None], None]

    def int_lit(self, neg_ok=True):
        return ["vali", self.r.choice([0, 1, 2, 3, 5, 7, 10] + ([-1, -2] if neg_ok else [])), None]

    def str_lit(self):
        return ["vals", self.r.choice(["x", "abc", "it's", "b", "%x_", "", "--c", "/*x*/", "{name}", "{{name}}", "{", "}", "{}", "{0}",
                                       "{name}", "{{name}}"]), None]

    # ------------------------------------------------------------------ expressions
    def sub_operand(self):
        """the shared family's scalar sub-query as an operand, or None"""
        return ["sub", None] if self.r.random() < self.p_sub_operand else None

    def num(self, srcs, d, ub, neg_ok=True):
        r = self.r.random()
        so = self.sub_operand()
        if so is not None:
            return so
        if d <= 0 or r < 0.4:
            f = self.field(srcs, "int", ub) if self.r.random() < 0.75 else None
            return f if f is not None else self.int_lit(neg_ok)
        if r < 0.75:
            op = self.r.choice(["add", "sub", "mul", "div", "add", "sub", "mul"])
            if self.r.random() < 0.06:
                op = self.r.choice(["lshift", "rshift"])       # shifts by a small constant, mixed with the other operators
            left = self.num(srcs, d - 1, ub)
            right = self.num(srcs, d - 1, ub, neg_ok=(op != "sub"))
            if op in ("lshift", "rshift"):
                right = ["vali", self.r.choice([0, 1, 2]), None]
            # shapes owned by C02 are kept out: a right operand starting with a minus sign under "-"
            if op == "sub" and self._starts_minus(right):
                right = self.int_lit(False)
            # x*(y/z): pypika drops the parentheses (C02 allows real-number identities; integer division differs)
            if op == "mul" and right[0] == "arith" and right[1] == "div" and self.r.random() >= self.p_defect:
                op = "add"
            return ["arith", op, left, right, None]
        if r < 0.85:
            name = self.r.choice(["ABS", "COALESCE"])
            args = [self.num(srcs, d - 1, ub)] if name == "ABS" else [self.num(srcs, d - 1, ub), self.int_lit()]
            return ["func", name, args, None]
        if r < 0.93:
            return ["case", [[self.crit(srcs, d - 1, ub), self.num(srcs, d - 1, ub)]],
                    self.num(srcs, d - 1, ub) if self.r.random() < 0.6 else None, None]
        if neg_ok and d > 0 and self.r.random() < 0.5:
            # unary minus over a compound (parenthesised since /repo 33fa91c), shifts included: -(a>>1) is not -a>>1
            op = self.r.choice(["add", "sub", "mul", "div", "lshift", "rshift", "rshift"])
            right = self.r.choice([["vali", 1, None], ["vali", 2, None]]) if op in ("lshift", "rshift") else self.num(srcs, 0, ub, neg_ok=False)
            return ["neg", ["arith", op, self.num(srcs, 0, ub, neg_ok=False), right, None]]
        f = self.sub_operand() or self.field(srcs, "int", ub)
        return ["neg", f] if f is not None and neg_ok else self.int_lit(neg_ok)

    @staticmethod
    def _starts_minus(t):
        while True:
            if t[0] == "neg" or (t[0] == "vali" and int(t[1]) < 0):
                return True
            if t[0] in ("arith", "basic", "cplx"):
                t = t[2]
                continue
            return False

    def strx(self, srcs, ub):
        f = self.field(srcs, "str", ub) if self.r.random() < 0.6 else None
        return f if f is not None else self.str_lit()

    def crit(self, srcs, d, ub):
        r = self.r.random()
        if d <= 0 or r < 0.45:
            if self.r.random() < 0.25:
                f = self.field(srcs, "str", ub)
                if f is not None:
                    if self.r.random() < 0.2:
                        return ["in", f, ["tuple", [self.str_lit() for _ in range(self.r.choice([0, 1, 2, 3]))], None],
                                self.r.random() < 0.3, None]
                    if self.r.random() < 0.4:
                        return ["basic", self.r.choice(["like", "not_like"]), f, ["vals", self.r.choice(["x%", "%b%", "it's", "_b_"]), None], None]
                    return ["basic", self.r.choice(["eq", "ne", "lt", "gte"]), f, self.strx(srcs, ub), None]
            return ["basic", self.r.choice(["eq", "ne", "gt", "gte", "lt", "lte"]), self.num(srcs, max(d - 1, 0), ub),
                    self.num(srcs, max(d - 1, 0), ub), None]
        if r < 0.65:
            if self.r.random() < 0.2:
                # a negated compound as operand of AND / OR: a AND NOT (b OR c)
                inner = ["not", ["cplx", self.r.choice(["and", "or"]), self.crit(srcs, 0, ub), self.crit(srcs, 0, ub), None], None]
                other = self.crit(srcs, d - 1, ub)
                return ["cplx", self.r.choice(["and", "or"])] + ([other, inner] if self.r.random() < 0.5 else [inner, other]) + [None]
            return ["cplx", self.r.choice(["and", "or"]), self.crit(srcs, d - 1, ub), self.crit(srcs, d - 1, ub), None]
        if r < 0.73:
            return ["not", self.crit(srcs, d - 1, ub), None]
        if r < 0.82:
            f = self.sub_operand() or self.field(srcs, "int", ub) or self.int_lit()
            return ["in", f, ["tuple", [self.int_lit() if self.r.random() < 0.85 else ["null", None]
                                       for _ in range(self.r.choice([0, 1, 2, 2, 3]))], None], self.r.random() < 0.3, None]
        if r < 0.9:
            f = self.sub_operand() or self.field(srcs, "int", ub) or self.int_lit()
            return ["between", f, self.sub_operand() or self.int_lit(), self.sub_operand() or self.int_lit(), None]
        f = self.sub_operand() or self.field(srcs, self.r.choice(["int", "str"]), ub) or self.int_lit()
        return [self.r.choice(["isnull", "notnull"]), f, None]

    def agg(self, srcs, ub):
        name = self.r.choice(AGG)
        if name == "COUNT" and self.r.random() < 0.4:
            return ["func", "COUNT", [["star", None]], None]
        if name in ("MIN", "MAX") and self.r.random() < 0.2:
            f = self.field(srcs, "str", ub)
            if f is not None:
                return ["func", name, [f], None]
        return ["func", name, [self.num(srcs, 1, ub)], None]

    # ------------------------------------------------------------------ sources
    def table_src(self, used_names):
        """a plain table; in-statement names are kept distinct (except the deliberate t JOIN t case handled by the caller)"""
        for _ in range(20):
            if self.r.random() < 0.12:
                tref = ["w", ["s"], None]
            else:
                tref = [self.r.choice(MAIN_TABLES), [], None]
            if self.r.random() < 0.3:
                tref[2] = self.r.choice(["ta", "tb", "x", "t9"])
            name = tref[2] or tref[0]
            if name not in used_names:
                used_names.add(name)
                return Src(["t", tref], {c: col_type(c) for c in COLS}, tref=tref)
        raise RuntimeError("no free table name")

    def subq_src(self, depth, used_names):
        q, cols = self.select(depth + 1, small=True, named=True)
        if self.r.random() < 0.5:
            for a in ["sub1", "z", "dq"]:
                if a not in used_names:
                    q["alias"] = a
                    used_names.add(a)
                    break
        return Src(["q", q], cols)

    def source(self, depth, used_names):
        if depth < self.max_depth and self.r.random() < self.p_subq:
            return self.subq_src(depth, used_names)
        return self.table_src(used_names)

    # ------------------------------------------------------------------ sub-queries inside items
    def scalar_sub(self, depth, outer, typ="int"):
        """an aggregate sub-query with exactly one row and one column; may be correlated (in its WHERE) with a plain
        table of the enclosing statement"""
        used = set(self._names(outer))
        src = self.table_src(used)
        srcs = [src]
        arg = self.field(srcs, typ, False)
        q = {"k": "sel", "cls": CLS, "from": [src.spec], "joins": [],
             "selects": [["t", ["func", self.r.choice(["MAX", "MIN"] if typ == "str" else ["MAX", "MIN", "SUM", "COUNT"]), [arg], None]]]}
        self._maybe_where(q, srcs, depth, outer)
        return q

    def column_sub(self, depth, outer, typ="int"):
        """a one-column sub-query (for IN / EXISTS)"""
        used = set(self._names(outer))
        src = self.table_src(used)
        srcs = [src]
        q = {"k": "sel", "cls": CLS, "from": [src.spec], "joins": [], "selects": [["t", self.field(srcs, typ, False)]]}
        if self.r.random() < 0.2:
            q["distinct"] = True
        self._maybe_where(q, srcs, depth, outer)
        return q

    @staticmethod
    def _names(srcs):
        out = []
        for s in srcs:
            if s.spec[0] == "t":
                out.append(s.spec[1][2] or s.spec[1][0])
            elif s.spec[0] == "q":
                if s.spec[1].get("alias"):
                    out.append(s.spec[1]["alias"])
            else:
                out.append(s.spec[1])
        return out + ["sq0", "sq1", "sq2", "sq3"]

    def _maybe_where(self, q, srcs, depth, outer):
        r = self.r.random()
        plain_outer = [s for s in outer if s.tref is not None]
        if r < 0.45 and plain_outer:
            # correlated: inner column = outer column (the outer table is referred to by its concrete table reference)
            o = self.r.choice(plain_outer)
            c = self.r.choice(INT_COLS)
            inner = self.field(srcs, "int", False)
            corr = ["basic", self.r.choice(["eq", "eq", "lt", "gte"]), inner, ["field", c, list(o.tref), None], None]
            # the correlated conjunct among 0-2 purely local ones, in any position (left-nested AND, at term or item level):
            # the builder issues one where() call per conjunct, in this order
            conj = [corr] + [self.crit(srcs, 0, False) for _ in range(self.r.choice([0, 1, 1, 2]))]
            self.r.shuffle(conj)
            if self.r.random() < 0.5:
                w = ["t", conj[0]]
                for x in conj[1:]:
                    w = ["cplx", "and", w, ["t", x]]
            else:
                t = conj[0]
                for x in conj[1:]:
                    t = ["cplx", "and", t, x, None]
                w = ["t", t]
            q["where"] = w
        elif r < 0.75:
            q["where"] = ["t", self.crit(srcs, 1, False)]

    def citem(self, srcs, depth, ub, d=2):
        """a criterion item for WHERE / ON, possibly involving a sub-query"""
        r = self.r.random()
        if depth < self.max_depth and r < self.p_subq * 0.7:
            k = self.r.choice(["in", "exists", "cmp"])
            if k == "in":
                f = self.field(srcs, "int", ub) or self.int_lit()
                return ["in", f, self.column_sub(depth + 1, srcs), self.r.random() < 0.3]
            if k == "exists":
                return ["exists", self.column_sub(depth + 1, srcs), self.r.random() < 0.3]
            f = self.field(srcs, "int", ub) or self.int_lit()
            return ["cmp", self.r.choice(["eq", "gt", "lte", "ne"]), f, self.scalar_sub(depth + 1, srcs)]
        if r < 0.3 and d > 0:
            if self.r.random() < 0.2:
                # the same at item level (the operands may hold sub-queries): x AND NOT (y OR z)
                inner = ["not", ["cplx", self.r.choice(["and", "or"]), self.citem(srcs, depth, ub, 0), self.citem(srcs, depth, ub, 0)]]
                return ["cplx", self.r.choice(["and", "or"]), self.citem(srcs, depth, ub, d - 1), inner]
            return ["cplx", self.r.choice(["and", "or"]), self.citem(srcs, depth, ub, d - 1), self.citem(srcs, depth, ub, d - 1)]
        if r < 0.36 and d > 0:
            return ["not", self.citem(srcs, depth, ub, d - 1)]
        return ["t", self.crit(srcs, d, ub)]

    # ------------------------------------------------------------------ windows (oracle only)
    def window(self, srcs):
        single_table = len(srcs) == 1 and srcs[0].tref is not None
        fname = self.r.choice(["RANK", "DENSE_RANK", "SUM", "COUNT", "MIN", "MAX", "AVG", "ROW_NUMBER"])
        args = [] if fname in ("RANK", "DENSE_RANK", "ROW_NUMBER") else [self.field(srcs, "int", False)]
        part = [self.field(srcs, "int", False) for _ in range(self.r.choice([0, 1, 1, 2]))]
        frame = None
        if fname == "ROW_NUMBER" or (args and single_table and self.r.random() < 0.3):
            if not single_table:
                fname, args = "RANK", []
                obs = [[self.field(srcs, "int", False), self.r.choice([None, "asc", "desc"])]]
            else:
                # total order up to identical rows: every column of the single table
                obs = [[["field", c, ["#0", [], None], None], self.r.choice([None, "asc", "desc"])] for c in COLS]
                if fname != "ROW_NUMBER":
                    frame = ["rows", self.r.choice(["unbounded_preceding", ["preceding", 0], ["preceding", 1], ["preceding", 2], "current"]),
                             self.r.choice(["current", ["following", 0], ["following", 1], ["following", 2], "unbounded_following"])]
        else:
            obs = [[self.field(srcs, "int", False), self.r.choice([None, "asc", "desc"])] for _ in range(self.r.choice([0, 1, 1, 2]))]
            if args and self.r.random() < 0.3:
                frame = self.r.choice([["rows", "unbounded_preceding", "unbounded_following"],
                                       ["range", "unbounded_preceding", "current"]])
            if fname in ("RANK", "DENSE_RANK") and not obs:
                obs = [[self.field(srcs, "int", False), "desc"]]
        return ["win", fname, args, part, obs, frame, None]

    # ------------------------------------------------------------------ statements
    def select(self, depth=0, small=False, named=False, windows=False):
        """returns (spec, output columns {name: type} that an enclosing statement may reference)"""
        used = set()
        nfrom = self.r.choice([1, 1, 1, 2] if not small else [1, 1, 1, 1, 2])
        srcs = [self.source(depth, used) for _ in range(nfrom)]
        q = {"k": "sel", "cls": CLS, "from": [s.spec for s in srcs], "joins": []}
        withs = []
        if depth == 0 and self.r.random() < self.p_with:
            w, wcols = self.select(depth + 1, small=True, named=True)
            name = self.r.choice(["cte", "w1"])
            withs.append([name, w])
            used.add(name)
            if self.r.random() < 0.5:
                srcs.append(Src(["a", name], wcols))
                q["from"] = [s.spec for s in srcs]
                nfrom += 1
        njoin = self.r.choice([0, 0, 1, 1, 2, 2, 3] if not small else [0, 0, 0, 1])
        for jn in range(njoin):
            if withs and withs[0][0] not in [x.spec[1] for x in srcs if x.spec[0] == "a"] and self.r.random() < 0.4:
                src = Src(["a", withs[0][0]], wcols)
            elif self.r.random() < 0.1 and srcs[0].tref is not None and srcs[0].tref[2] is None and srcs[0].tref[1] == []:
                # the same un-aliased table again: pypika writes the first free numbered alias <name>2, <name>3, ... onto it
                # (free = carried by no other source, be it as alias or as the plain name of a table such as t2)
                src = Src(["t", list(srcs[0].tref)], dict(srcs[0].cols), tref=None)
                n = 2
                while srcs[0].tref[0] + str(n) in used:
                    n += 1
                used.add(srcs[0].tref[0] + str(n))
            else:
                src = self.source(depth, used)
            r = self.r.random()
            allsrc = srcs + [src]
            if r < 0.75:
                li = self.r.randrange(len(srcs))
                lc = self.r.choice([c for c, ty in srcs[li].cols.items() if ty == "int"] or [None])
                rc = self.r.choice([c for c, ty in src.cols.items() if ty == "int"] or [None])
                if self.r.random() < 0.3:
                    # the shape Joiner.on_field("c") builds: <first FROM item>.c = <joined item>.c
                    both = [c for c, ty in srcs[0].cols.items() if ty == "int" and src.cols.get(c) == "int"]
                    if both:
                        li, lc = 0, self.r.choice(both)
                        rc = lc
                if lc is None or rc is None:
                    cond = ["cross"]
                else:
                    eq = ["basic", self.r.choice(["eq", "eq", "eq", "lte"]), ["field", lc, ["#%d" % li, [], None], None],
                          ["field", rc, ["#%d" % len(srcs), [], None], None], None]
                    if self.r.random() < 0.25:
                        cond = ["on", ["cplx", "and", ["t", eq], self.citem(allsrc, depth, False, 1)]]
                    else:
                        cond = ["on", ["t", eq]]
            elif r < 0.88 and nfrom == 1 and jn == 0:
                common = [c for c in srcs[0].cols if c in src.cols and srcs[0].cols[c] == src.cols[c]]
                cond = ["using", self.r.sample(common, 2 if len(common) > 1 and self.r.random() < 0.35 else 1)] if common else ["cross"]
            else:
                cond = ["cross"]
            how = self.r.choice(JOIN_TYPES) if cond[0] != "cross" else "cross"
            if cond[0] == "using":
                how = self.r.choice(["inner", "left", "left_outer"])
            q["joins"].append([how, src.spec, cond])
            srcs.append(src)
        if withs:
            q["with"] = withs
        ub = len(srcs) == 1 and srcs[0].spec[0] == "t"
        grouped = self.r.random() < (0.3 if not small else 0.15)
        nsel = self.r.choice([1, 2, 3])
        sels, outcols = [], {}
        has_using = any(j[2][0] == "using" for j in q["joins"])

        def name_item(t, typ, force):
            """give the item an output name when wanted (or needed: sub-query sources, name already taken); output
            names of one statement are kept distinct"""
            aliasable = t[0] in ("field", "arith", "func", "case", "win")
            bare = t[1] if t[0] == "field" else None
            if aliasable and ((force and bare is None) or bare in outcols or self.r.random() < self.p_alias):
                nm = self.r.choice([a for a in ALIASES + ["a", "s"] if a not in outcols and a != bare] or ["zz%d" % len(outcols)])
                t = list(t)
                t[-1] = nm
            else:
                nm = bare
            if nm is not None:
                outcols[nm] = typ
            return t

        if grouped:
            keys = []
            for _ in range(self.r.choice([1, 1, 2])):
                typ = "str" if self.r.random() < 0.15 else "int"
                k = (self.field(srcs, typ, ub) if self.r.random() < 0.7 or typ == "str" else self.num(srcs, 1, ub))
                if k is None or k[0] == "vali":
                    k, typ = self.field(srcs, "int", ub), "int"
                if k is not None:
                    keys.append((k, typ))
            gitems = []
            for k, typ in keys:
                if self.r.random() < 0.8:
                    kk = name_item(k, typ, named)
                    # the alias-substituted GROUP BY is only right when the alias does not hide a column (finding F1)
                    if kk[0] in ("field", "arith", "func", "case") and kk[-1] is not None and any(kk[-1] in x.cols for x in srcs) and self.r.random() >= self.p_defect:
                        gitems.append(["t", k])
                    else:
                        gitems.append(["t", kk])
                    sels.append(["t", kk])
                else:
                    # a group key that is not selected; sometimes it carries an alias nobody selected (must be ignored)
                    gitems.append(["t", k, "unselected"] if self.r.random() < 0.4 else ["t", k])
            if depth < self.max_depth and self.r.random() < 0.08 and any(x.tref is not None for x in srcs):
                # a correlated scalar sub-query as group key (parenthesised since /repo 2346aee): selected under an alias,
                # grouped by the un-aliased statement
                import copy
                sub = self.scalar_sub(depth + 1, srcs)
                nm = self.r.choice([a for a in ["m", "sa", "zz7"] if a not in outcols])
                outcols[nm] = "int"
                gitems.append(["sub", copy.deepcopy(sub)])
                sub["alias"] = nm
                sels.append(["sub", sub])
            for _ in range(self.r.choice([1, 1, 2])):
                a = self.agg(srcs, ub)
                typ = "str" if (a[1] in ("MIN", "MAX") and a[2][0][0] == "field" and a[2][0][1] == "s") else "int"
                sels.append(["t", name_item(a, typ, named)])
            # (the alias nobody selected is chosen now that every output name of the statement is known)
            gitems = [["t", self._unselected_alias(g[1], set(outcols))] if len(g) == 3 else g for g in gitems]
            # positional keys: GROUP BY 2 for the group key selected as second item (groupby(2) / ValueWrapper(2))
            for n, g in enumerate(gitems):
                if g in sels and self.r.random() < 0.15:
                    gitems[n] = ["t", ["vali", sels.index(g) + 1, None]]
            q["groupby"] = gitems
            if self.r.random() < 0.5:
                a = self.agg(srcs, ub)
                if a[1] in ("MIN", "MAX") and a[2][0][0] == "field" and a[2][0][1] == "s":
                    a = ["func", "COUNT", [["star", None]], None]
                q["having"] = ["t", ["basic", self.r.choice(["gt", "gte", "lt", "ne"]), a, self.int_lit(), None]]
                if depth < self.max_depth and self.r.random() < 0.25:
                    # sub-queries in HAVING (parenthesised since /repo c8c50bc): comparison, EXISTS, IN
                    r2 = self.r.random()
                    q["having"] = (["cmp", self.r.choice(["gt", "lte", "ne"]), a, self.scalar_sub(depth + 1, [])] if r2 < 0.4
                                   else ["exists", self.column_sub(depth + 1, []), self.r.random() < 0.3] if r2 < 0.7
                                   else ["in", a, self.column_sub(depth + 1, []), self.r.random() < 0.3])
        else:
            star = (not named) and not has_using and self.r.random() < 0.07
            if star:
                k = self.r.randrange(len(srcs))
                sels = [["t", ["star", ["#%d" % k, [], None] if self.r.random() < 0.6 else None]]]
            else:
                for _ in range(nsel):
                    r = self.r.random()
                    if depth < self.max_depth and r < self.p_subq * 0.35:
                        sub = self.scalar_sub(depth + 1, srcs)
                        if self.r.random() < 0.35:
                            fa = None
                            if named or self.r.random() < 0.5:
                                fa = "fa%d" % len(outcols)
                                outcols[fa] = "int"
                            sels.append(["func", "COALESCE", [["sub", sub], ["t", self.int_lit()]], fa])
                        else:
                            if named or self.r.random() < 0.5:
                                nm = self.r.choice([a for a in ["sa", "m", "n"] if a not in outcols] or ["zz%d" % len(outcols)])
                                sub["alias"] = nm
                                outcols[nm] = "int"
                            sels.append(["sub", sub])
                    elif windows and r < 0.5 and self.field(srcs, "int", False) is not None:
                        sels.append(["t", name_item(self.window(srcs), "int", named)])
                    elif r < 0.85:
                        sels.append(["t", name_item(self.num(srcs, 2, ub), "int", named)])
                    elif r < 0.93 and self.field(srcs, "str", ub) is not None:
                        sels.append(["t", name_item(self.strx(srcs, ub), "str", named)])
                    else:
                        c = self.crit(srcs, 1, ub)
                        sels.append(["t", c])
        if self.r.random() < 0.2:
            q["distinct"] = True
        q["selects"] = sels
        if self.r.random() < 0.6:
            q["where"] = self.citem(srcs, depth, ub)
        is_star = sels and sels[0][0] == "t" and sels[0][1][0] == "star"
        # ORDER BY
        want_page = self.r.random() < 0.3 and not is_star
        if want_page or self.r.random() < (0.45 if not small else 0.15):
            obs = []
            orderable = [i for i in sels if i[0] == "t" and i[1][0] not in ("star", "vali", "vals", "null", "valb")]
            if want_page:
                # a total order on the result rows: every select item (sub-query items make the page untestable: skip paging)
                if len(orderable) == len(sels):
                    order = list(orderable)
                    self.r.shuffle(order)
                    obs = [[self._ob_item(i, sels), self.r.choice([None, "asc", "desc"])] for i in order]
                else:
                    want_page = False
            if not obs:
                for _ in range(self.r.choice([1, 1, 2])):
                    if orderable and (grouped or q.get("distinct") or self.r.random() < 0.6):
                        obs.append([self._ob_item(self.r.choice(orderable), sels), self.r.choice([None, "asc", "desc"])])
                    elif not grouped and not q.get("distinct"):
                        f = self.field(srcs, "int", ub)
                        if f is not None:
                            if self.r.random() < 0.3:
                                f = self._unselected_alias(f, {Ref.out_name(i) for i in sels})
                            obs.append([["t", f], self.r.choice([None, "asc", "desc"])])
            if obs and not want_page and not grouped and not q.get("distinct") and depth < self.max_depth and self.r.random() < 0.12:
                # a (possibly correlated) scalar sub-query as ORDER BY key (parenthesised since /repo 2346aee)
                obs.insert(self.r.randrange(len(obs) + 1), [["sub", self.scalar_sub(depth + 1, srcs)], self.r.choice([None, "asc", "desc"])])
            if obs:
                q["orderby"] = obs
        hits = captured_order_items(q)
        if hits and self.r.random() >= self.p_defect:
            q["orderby"] = [o for n, o in enumerate(q["orderby"]) if n not in hits]
            want_page = False
            if not q["orderby"]:
                q.pop("orderby")
        if want_page and q.get("orderby"):
            q["limit"] = self.r.choice([0, 1, 2, 3, 5, 10])
            if self.r.random() < 0.6:
                q["offset"] = self.r.choice([0, 1, 2, 4])
        return q, outcols

    def _ob_item(self, sel_item, sels):
        """ORDER BY by a select item: the very same (aliased) term, so that pypika substitutes the alias, or the bare
        expression, or the expression under an alias that is not selected (which must be ignored), or its position"""
        if self.r.random() < 0.12:
            return ["t", ["vali", sels.index(sel_item) + 1, None]]
        t = sel_item[1]
        if t[0] in ("field", "arith", "func", "case", "win"):
            r = self.r.random()
            if t[-1] is not None and r < 0.3:
                t = list(t)
                t[-1] = None
            elif r < 0.5:
                taken = {Ref.out_name(i) for i in sels}
                t = self._unselected_alias(t, taken)
        return ["t", t]

    def _unselected_alias(self, t, taken):
        if t[0] not in ("field", "arith", "func", "case", "win"):
            return t
        free = [a for a in ["b", "c", "id", "a", "zz", "q9"] if a not in taken]
        if not free:
            return t
        t = list(t)
        t[-1] = self.r.choice(free)
        return t

    def top(self, windows=False):
        q, _ = self.select(0, windows=windows)
        return q


# ----------------------------------------------------------------------------------------------
# spec utilities
# ----------------------------------------------------------------------------------------------
ALIASABLE = ("field", "arith", "func", "case", "win")


def stmt_qualifies(q):
    """does get_sql decide with_namespace=True for this statement?"""
    if q.get("joins") or len(q.get("from", [])) > 1 or (q.get("from") and q["from"][0][0] == "q"):
        return True
    found = []
    w = q.get("where")
    if w is not None and w[0] == "t":
        def f(t):
            if t[0] == "field" and isinstance(t[2], list) and not t[2][0].startswith("#"):
                found.append(1)
        walk_terms(w[1], f)
    return bool(found)


def field_unqualified(q, t):
    """is the field rendered as a bare column name in statement q?"""
    if t[2] is None:
        return True
    if t[2][2] is not None:
        return False
    if not t[2][0].startswith("#"):
        return not stmt_qualifies(q)
    if stmt_qualifies(q):
        return False
    src = (q.get("from", []) + [j[1] for j in q.get("joins", [])])[int(t[2][0][1:])]
    return src[0] == "t" and src[1][2] is None


def captured_order_items(q):
    """positions of ORDER BY items rendered as a bare column name that is also the output name of a select item of
    another meaning: SQL binds a bare ORDER BY identifier to the output column first"""
    outs = {}
    for i in q.get("selects", []):
        nm = Ref.out_name(i)
        if nm is not None and not (i[0] == "t" and i[1][0] == "star"):
            outs.setdefault(nm, i)
    aliases = {i[1][-1] for i in q.get("selects", []) if i[0] == "t" and i[1][0] in ALIASABLE and i[1][-1] is not None}
    hits = []
    for n, (it, _d) in enumerate(q.get("orderby", [])):
        if it[0] != "t":
            continue
        t = it[1]
        if t[0] in ALIASABLE and t[-1] is not None and t[-1] in aliases:
            continue            # pypika writes the alias on purpose
        if t[0] == "field" and field_unqualified(q, t) and t[1] in outs:
            o = outs[t[1]]
            same = o[0] == "t" and o[1][0] == "field" and o[1][1] == t[1] and o[1][2] == t[2]
            if not same:
                hits.append(n)
    return hits

def sub_specs(it):
    """sub-query specs directly inside an item"""
    k = it[0]
    if k == "sub":
        return [it[1]]
    if k == "in":
        return [it[2]]
    if k == "exists":
        return [it[1]]
    if k == "cmp":
        return [it[3]]
    if k == "func":
        return [x for a in it[2] for x in sub_specs(a)]
    if k == "cplx":
        return sub_specs(it[2]) + sub_specs(it[3])
    if k == "not":
        return sub_specs(it[1])
    return []


def walk_terms(t, f):
    """apply f to every term node (lists starting with a kind string)"""
    if isinstance(t, list) and t and isinstance(t[0], str):
        f(t)
        for x in t[1:]:
            walk_terms(x, f)
    elif isinstance(t, list):
        for x in t:
            walk_terms(x, f)


def item_terms(it):
    """the terms an item holds directly (sub-statements are visited through all_items)"""
    if it[0] == "t":
        return [it[1]]
    if it[0] == "in":
        return [it[1]]
    if it[0] == "cmp":
        return [it[2]]
    return []


def has_window(s):
    found = []

    def chk(t):
        if t[0] == "win":
            found.append(1)
    for it in all_items(s):
        for t in item_terms(it):
            walk_terms(t, chk)
    return bool(found)


def all_items(s):
    """every clause item of the statement and of its nested statements"""
    out = []

    def stmt(q):
        items = list(q.get("selects", []))
        if q.get("where") is not None:
            items.append(q["where"])
        if q.get("having") is not None:
            items.append(q["having"])
        items += q.get("groupby", [])
        items += [o[0] for o in q.get("orderby", [])]
        for j in q.get("joins", []):
            if j[2][0] == "on":
                items.append(j[2][1])

        def rec(it):
            out.append(it)
            if it[0] == "func":
                for a in it[2]:
                    rec(a)
            elif it[0] == "cplx":
                rec(it[2]); rec(it[3])
            elif it[0] == "not":
                rec(it[1])
            for sub in ([it[1]] if it[0] in ("sub", "exists") else [it[2]] if it[0] == "in" else [it[3]] if it[0] == "cmp" else []):
                stmt(sub)
        for it in items:
            rec(it)
        for src in q.get("from", []) + [j[1] for j in q.get("joins", [])]:
            if src[0] == "q":
                stmt(src[1])
        for _, w in q.get("with", []):
            stmt(w)
    stmt(s)
    return out


def shape(s, acc=None, depth=0):
    acc = acc if acc is not None else {}

    def inc(k, n=1):
        acc[k] = acc.get(k, 0) + n
    inc("stmt@%d" % depth)
    for src in s.get("from", []):
        inc("from:" + src[0])
    for j in s.get("joins", []):
        inc("join:%s/%s/%s" % (j[0], j[1][0], j[2][0]))
    for k in ("where", "having", "distinct", "with", "groupby", "orderby", "limit", "offset"):
        if s.get(k):
            inc(k)
    if s.get("limit") == 0:
        inc("limit0")
    for it in all_items(s):
        inc("item:" + it[0])
        if it[0] == "t":
            def f(t):
                if t[0] in ("win", "case", "func", "in", "between", "neg", "star"):
                    inc("term:" + (t[0] if t[0] != "func" else "func:" + t[1]))
                if t[0] in ("field", "arith", "func", "case", "win") and t[-1] is not None:
                    inc("alias")
                if t[0] == "field" and isinstance(t[2], list) and not t[2][0].startswith("#"):
                    inc("correlated-ref")
            walk_terms(it[1], f)
    return acc
