"""The `terms` case family: expression-tree specs, their construction on pypika, their Gallina form (coq/Terms.v),
rendering contexts, and typed generators.  Shared by several property plugins."""
import json
import zlib
from harness.lib import S, OS, Zc, B, L, O, P

AOP = {"add": "OAdd", "sub": "OSub", "mul": "OMul", "div": "ODiv", "lshift": "OShl", "rshift": "OShr"}
CMP = {"eq": "CEq", "ne": "CNe", "gt": "CGt", "gte": "CGe", "lt": "CLt", "lte": "CLe", "like": "CLike",
       "not_like": "CNotLike", "ilike": "CILike", "not_ilike": "CNotILike", "rlike": "CRLike", "regex": "CRegex",
       "regexp": "CRegexp", "bin_regex": "CBinRegex", "as_of": "CAsOf", "glob": "CGlob"}
EQUALITY = ["eq", "ne", "gt", "gte", "lt", "lte"]
MATCHING = ["like", "not_like", "ilike", "not_ilike", "rlike", "regex", "regexp", "bin_regex", "glob"]
BOP = {"and": "BAnd", "or": "BOr", "xor": "BXor"}
DIALECTS = {"vertica": "DVertica", "clickhouse": "DClickhouse", "oracle": "DOracle", "mssql": "DMssql", "mysql": "DMysql",
            "postgresql": "DPostgres", "redshift": "DRedshift", "sqllite": "DSqlite", "snowflake": "DSnowflake"}

SUB_BODY = 'SELECT "x" FROM "u"'


# ----------------------------------------------------------------------------------------------
# spec -> pypika
# ----------------------------------------------------------------------------------------------
RESOLVER = {}   # "#i" table names -> source objects of the enclosing statement (set by harness/queries_family.py)


def mk_table(t):
    from pypika import Table
    if t is None:
        return None
    name, schema, alias = t
    if name.startswith("#"):
        return RESOLVER[int(name[1:])]
    tb = Table(name, schema=(tuple(schema) if schema else None))
    if alias is not None:
        tb = tb.as_(alias)
    return tb


def _al(obj, alias):
    return obj if alias is None else obj.as_(alias)


_PY_ARITH = {"add": "__add__", "sub": "__sub__", "mul": "__mul__", "div": "__truediv__", "lshift": "__lshift__", "rshift": "__rshift__"}
_PY_EQ = {"eq": "__eq__", "ne": "__ne__", "gt": "__gt__", "gte": "__ge__", "lt": "__lt__", "lte": "__le__"}
_PY_BOOL = {"and": "__and__", "or": "__or__", "xor": "__xor__"}


def _build_ops(t):
    """The same tree written the way a user writes it: Python operators and the Term methods (`a + b`, `a == b`, `p & q`,
    `~p`, `-a`, `x.isin(..)`, `x.notin(..)`, `x.between(..)`, `x.isnull()` ...).  On the unchanged tree every one of these is
    a thin wrapper around the constructor form, so both forms must render the same text; a change that makes an operator
    or method do something else than the constructor (e.g. an `__invert__` override) is seen by the correspondence check.
    Returns None where no operator form exists (the caller falls back to the constructors)."""
    import pypika.terms as T
    k = t[0]
    b = lambda x: build(x, ops=True)   # noqa: E731

    def plain(o, name):   # the operator is Term's own (QueryBuilder.__eq__, Interval.__add__ ... mean something else)
        return getattr(type(o), name, None) is getattr(T.Term, name)
    if k == "neg":
        return -b(t[1])
    if k == "arith" and t[1] in _PY_ARITH:
        l = b(t[2])
        return _al(getattr(l, _PY_ARITH[t[1]])(b(t[3])), t[4]) if plain(l, _PY_ARITH[t[1]]) else None
    if k == "basic":
        l, r = b(t[2]), b(t[3])
        if t[1] in _PY_EQ:
            return _al(getattr(l, _PY_EQ[t[1]])(r), t[4]) if plain(l, _PY_EQ[t[1]]) else None
        if hasattr(T.Term, t[1]):
            return _al(getattr(l, t[1])(r), t[4])
        return None
    if k == "cplx" and t[1] in _PY_BOOL:
        l, r = b(t[2]), b(t[3])
        if not isinstance(l, T.Criterion) or isinstance(l, T.EmptyCriterion) or isinstance(r, T.EmptyCriterion):
            return None
        return _al(getattr(l, _PY_BOOL[t[1]])(r), t[4])
    if k == "in":
        l, r = b(t[1]), b(t[2])
        c = l.notin(r) if t[3] else l.isin(r)
        # negate() is the method form of NOT: applied twice more it must give the same test back (one case in three, chosen
        # by a hash of the spec so that a replay makes the same choice)
        # (an optional sixth element of the spec forces the choice: corpus witnesses)
        if (t[5] if len(t) > 5 else zlib.crc32(json.dumps(t, sort_keys=True, default=str).encode()) % 3 == 0):
            c = c.negate().negate()
        return _al(c, t[4])
    if k == "between":
        return _al(b(t[1]).between(b(t[2]), b(t[3])), t[4])
    if k == "bitand":
        return _al(b(t[1]).bitwiseand(int(t[2])), t[3])
    if k == "isnull":
        return _al(b(t[1]).isnull(), t[2])
    if k == "notnull":
        return _al(b(t[1]).isnotnull(), t[2])
    if k == "not":
        return _al(~b(t[1]), t[2])
    if k == "all":
        return _al(b(t[1]).all_(), t[2])
    if k == "func" and t[1] == "MOD" and len(t[2]) == 2:
        l = b(t[2][0])
        return _al(l % b(t[2][1]), t[3]) if plain(l, "__mod__") else None     # the % operator spelling of MOD(x, y)
    return None


def build(t, ops=False):
    import pypika.terms as T
    import pypika.enums as E
    from pypika import Query, Table
    from decimal import Decimal
    k = t[0]
    if ops:
        o = _build_ops(t)
        if o is not None:
            return o
        sub = lambda x: build(x, ops=True)   # noqa: E731
    else:
        sub = build
    if k == "field":
        return T.Field(t[1], alias=t[3], table=mk_table(t[2]))
    if k == "star":
        return T.Star(mk_table(t[1]))
    if k == "vals":
        return T.ValueWrapper(t[1], alias=t[2])
    if k == "vali":
        return T.ValueWrapper(int(t[1]), alias=t[2])
    if k == "valb":
        if t[2]:
            from pypika.dialects import SQLLiteValueWrapper
            return SQLLiteValueWrapper(bool(t[1]), alias=t[3])
        return T.ValueWrapper(bool(t[1]), alias=t[3])
    if k == "valnone":
        return T.ValueWrapper(None, alias=t[1])
    if k == "valf":
        return T.ValueWrapper(float(t[1]), alias=t[2])
    if k == "vald":
        return T.ValueWrapper(Decimal(t[1]), alias=t[2])
    if k == "lit":
        return T.LiteralValue(t[1], alias=t[2])
    if k == "null":
        return T.NullValue(alias=t[1])
    if k == "param":
        return T.Parameter(t[1])
    if k == "neg":
        return T.Negative(sub(t[1]))
    if k == "arith":
        return T.ArithmeticExpression(getattr(E.Arithmetic, t[1]), sub(t[2]), sub(t[3]), alias=t[4])
    if k == "basic":
        cls = E.Equality if t[1] in EQUALITY else E.Matching
        return T.BasicCriterion(getattr(cls, t[1]), sub(t[2]), sub(t[3]), alias=t[4])
    if k == "cplx":
        return T.ComplexCriterion(getattr(E.Boolean, t[1] + "_"), sub(t[2]), sub(t[3]), alias=t[4])
    if k == "in":
        c = T.ContainsCriterion(sub(t[1]), sub(t[2]), alias=t[4])
        return c.negate() if t[3] else c
    if k == "between":
        return T.BetweenCriterion(sub(t[1]), sub(t[2]), sub(t[3]), alias=t[4])
    if k == "bitand":
        return T.BitwiseAndCriterion(sub(t[1]), T.Term.wrap_constant(int(t[2])), alias=t[3])
    if k == "isnull":
        return T.NullCriterion(sub(t[1]), alias=t[2])
    if k == "notnull":
        return T.NotNullCriterion(sub(t[1]), alias=t[2])
    if k == "not":
        return T.Not(sub(t[1]), alias=t[2])
    if k == "all":
        return T.All(sub(t[1]), alias=t[2])
    if k == "empty":
        return T.EmptyCriterion()
    if k == "case":
        c = T.Case(alias=t[3])
        for cr, v in t[1]:
            c = c.when(sub(cr), sub(v))
        if t[2] is not None:
            c = c.else_(sub(t[2]))
        return c
    if k == "func":
        return T.Function(t[1], *[sub(a) for a in t[2]], alias=t[3])
    if k == "cast":
        from pypika.functions import Cast
        return Cast(sub(t[1]), t[2], alias=t[3])
    if k == "tuple":
        return _al(T.Tuple(*[sub(a) for a in t[1]]), t[2])
    if k == "array":
        return _al(T.Array(*[sub(a) for a in t[1]]), t[2])
    if k == "sub":
        q = Query.from_(Table("u")).select("x")
        return _al(q, t[1])
    raise ValueError("unknown term kind %r" % (k,))


# ----------------------------------------------------------------------------------------------
# spec -> Gallina
# ----------------------------------------------------------------------------------------------
def tref_coq(t):
    if t is None:
        return "None"
    name, schema, alias = t
    return "(Some {| tname := %s; tschema := %s; talias := %s |})" % (S(name), L([S(x) for x in (schema or [])]), OS(alias))


def tl(xs):
    out = "TNil"
    for x in reversed(xs):
        out = "(TCons %s %s)" % (coq(x), out)
    return out


def coq(t):
    from decimal import Decimal
    k = t[0]
    if k == "field":
        return "(TField %s %s %s)" % (S(t[1]), tref_coq(t[2]), OS(t[3]))
    if k == "star":
        return "(TStar %s)" % tref_coq(t[1])
    if k == "vals":
        return "(TValS %s %s)" % (S(t[1]), OS(t[2]))
    if k == "vali":
        return "(TValI %s %s)" % (Zc(t[1]), OS(t[2]))
    if k == "valb":
        return "(TValB %s %s %s)" % (B(t[1]), B(t[2]), OS(t[3]))
    if k == "valnone":
        return "(TValNone %s)" % OS(t[1])
    if k == "valf":
        return "(TValRaw %s %s)" % (S(str(float(t[1]))), OS(t[2]))
    if k == "vald":
        return "(TValRaw %s %s)" % (S(str(Decimal(t[1]))), OS(t[2]))
    if k == "lit":
        return "(TLit %s %s)" % (S(t[1]), OS(t[2]))
    if k == "null":
        return "(TLit %s %s)" % (S("NULL"), OS(t[1]))
    if k == "param":
        return "(TParam %s)" % S(t[1])
    if k == "neg":
        return "(TNeg %s)" % coq(t[1])
    if k == "arith":
        return "(TArith %s %s %s %s)" % (AOP[t[1]], coq(t[2]), coq(t[3]), OS(t[4]))
    if k == "basic":
        return "(TBasic %s %s %s %s)" % (CMP[t[1]], coq(t[2]), coq(t[3]), OS(t[4]))
    if k == "cplx":
        return "(TCplx %s %s %s %s)" % (BOP[t[1]], coq(t[2]), coq(t[3]), OS(t[4]))
    if k == "in":
        return "(TIn %s %s %s %s)" % (coq(t[1]), coq(t[2]), B(t[3]), OS(t[4]))
    if k == "between":
        return "(TBetween %s %s %s %s)" % (coq(t[1]), coq(t[2]), coq(t[3]), OS(t[4]))
    if k == "bitand":
        return "(TBitAnd %s %s %s)" % (coq(t[1]), S(str(int(t[2]))), OS(t[3]))
    if k in ("isnull", "notnull", "not", "all"):
        c = {"isnull": "TIsNull", "notnull": "TNotNull", "not": "TNot", "all": "TAll"}[k]
        return "(%s %s %s)" % (c, coq(t[1]), OS(t[2]))
    if k == "empty":
        return "TEmpty"
    if k == "case":
        ws = "WNil"
        for cr, v in reversed(t[1]):
            ws = "(WCons %s %s %s)" % (coq(cr), coq(v), ws)
        els = "ONone" if t[2] is None else "(OSome %s)" % coq(t[2])
        return "(TCase %s %s %s)" % (ws, els, OS(t[3]))
    if k == "func":
        return "(TFunc %s %s None %s)" % (S(t[1]), tl(t[2]), OS(t[3]))
    if k == "cast":
        return "(TFunc %s %s (Some %s) %s)" % (S("CAST"), tl([t[1]]), S("AS " + str(t[2]).upper()), OS(t[3]))
    if k == "tuple":
        return "(TTuple %s %s)" % (tl(t[1]), OS(t[2]))
    if k == "array":
        return "(TArray %s %s)" % (tl(t[1]), OS(t[2]))
    if k == "sub":
        return "(TSub %s %s %s)" % (S("x"), S("u"), OS(t[1]))
    raise ValueError(k)


# ----------------------------------------------------------------------------------------------
# contexts
# ----------------------------------------------------------------------------------------------
def ctx_kwargs(c):
    """ctx spec (dict) -> kwargs for get_sql. quote_char and secondary_quote_char are always passed."""
    import pypika.enums as E
    kw = {"quote_char": c["q"], "secondary_quote_char": c["sq"]}
    if c.get("aq") is not None:
        kw["alias_quote_char"] = c["aq"]
    if c.get("askw"):
        kw["as_keyword"] = True
    if c.get("dia") is not None:
        kw["dialect"] = E.Dialects(c["dia"])
    for k_, name in (("wa", "with_alias"), ("wn", "with_namespace"), ("subq", "subquery"), ("subc", "subcriterion")):
        if c.get(k_):
            kw[name] = True
    return kw


def ctx_coq(c):
    return ("{| q := %s; sq := %s; aq := %s; askw := %s; dia := %s; wa := %s; wn := %s; subq := %s; subc := %s |}" % (
        OS(c["q"]), OS(c["sq"]), OS(c.get("aq")), B(c.get("askw", False)),
        "None" if c.get("dia") is None else "(Some %s)" % DIALECTS[c["dia"]],
        B(c.get("wa", False)), B(c.get("wn", False)), B(c.get("subq", False)), B(c.get("subc", False))))


STR_CTX = {"q": '"', "sq": "'"}


def gen_ctx(rng):
    c = {"q": rng.choice(['"', '"', '`', None]), "sq": rng.choice(["'", "'", "'", '"'])}
    if rng.random() < 0.3:
        c["aq"] = rng.choice(['"', '`'])
    if rng.random() < 0.3:
        c["askw"] = True
    if rng.random() < 0.4:
        c["dia"] = rng.choice(list(DIALECTS))
    for k_ in ("wa", "wn", "subq", "subc"):
        if rng.random() < 0.35:
            c[k_] = True
    return c


def _T():
    import pypika.terms as T
    return T


def render_impl(t, c, ops=False):
    try:
        obj = build(t, ops=ops)
        # history perturbation at term level (the statement-level one is harness/purity.py): the very object that is
        # rendered for the comparison was rendered before, with a private parameter collector ("prepare, then log") and
        # under foreign conventions; rendering is specified as a pure function of the tree and the conventions, so a
        # decision cached on the object by its first rendering (seeded/C02-20: parentheses decided once) shows here
        for pre in (dict(ctx_kwargs(c), parameter=_T().QmarkParameter()),
                    dict(quote_char="`", secondary_quote_char='"', as_keyword=True)):
            try:
                obj.get_sql(**pre)
            except Exception:  # noqa
                pass
        return obj.get_sql(**ctx_kwargs(c))
    except Exception as e:  # noqa
        return "!" + type(e).__name__


# ----------------------------------------------------------------------------------------------
# typed generators
# ----------------------------------------------------------------------------------------------
HOSTILE = ["it's", 'say "hi"', "back\\slash", "--c", "/*x*/", "#h", "a;b", "l1\nl2", "nul\x00z", "é✓", "''", "", " ", "%x_",
           # format-template and post-processing bait (round 4): braces, percent directives, a trailing backslash, statement
           # keywords and hint-like text inside a value
           "{", "}", "{}", "{{x}}", "{0}", "{name}", "%s", "%(p)s", "100%", "dir\\", "\\", "SELECT 1", "INSERT INTO x",
           "/*+label(h)*/"]
NAMES = ["a", "b", "c", "col", "x1"]
ALIASES = ["al", "n", "my alias"]
TABLES = [["t", [], None], ["t", [], "ta"], ["u", ["s"], None], ["v", ["d", "s"], "va"], ["t", [], ""]]


class Gen:
    def __init__(self, rng, p_alias=0.15, p_table=0.4, hostile=0.3, with_sub=False, all_ops=True, p_crit=0.0):
        self.r = rng
        self.p_crit = p_crit      # share of comparison / arithmetic operands that are themselves predicates
        self.p_alias = p_alias
        self.p_table = p_table
        self.hostile = hostile
        self.with_sub = with_sub
        self.all_ops = all_ops

    def alias(self):
        return self.r.choice(ALIASES) if self.r.random() < self.p_alias else None

    def table(self):
        return self.r.choice(TABLES) if self.r.random() < self.p_table else None

    def field(self):
        return ["field", self.r.choice(NAMES), self.table(), self.alias()]

    def string(self):
        if self.r.random() < self.hostile:
            return self.r.choice(HOSTILE)
        return self.r.choice(["abc", "x", "2020-01-01", "v%"])

    def num_leaf(self):
        r = self.r.random()
        if r < 0.45:
            return self.field()
        if r < 0.8:
            return ["vali", self.r.choice([0, 1, 2, 7, 10, -1, -5, 10 ** 12, -(10 ** 9)]), self.alias()]
        if r < 0.86:
            return ["valf", self.r.choice(["1.5", "-2.25", "0.1", "1e+20"]), self.alias()]
        if r < 0.9:
            return ["vald", self.r.choice(["1.50", "-0.001"]), self.alias()]
        if r < 0.94:
            return ["param", self.r.choice(["?", "%s", ":1", ":name"])]
        if r < 0.97:
            return ["null", self.alias()]
        return ["lit", self.r.choice(["CURRENT_DATE", "x.y"]), self.alias()]

    def num(self, d):
        r = self.r.random()
        if d <= 0 or r < 0.25:
            return self.num_leaf()
        if r < 0.62:
            ops = ["add", "sub", "mul", "div"] + (["lshift", "rshift"] if self.all_ops else [])
            return ["arith", self.r.choice(ops), self.num(d - 1), self.num(d - 1), self.alias()]
        if r < 0.72:
            return ["neg", self.num(d - 1)]
        if r < 0.84:
            n = self.r.choice([0, 1, 2, 3])
            return ["func", self.r.choice(["ABS", "COALESCE", "F"]), [self.any(d - 1) for _ in range(n)], self.alias()]
        if r < 0.9:
            n = self.r.choice([1, 2, 3])
            return ["case", [[self.boolean(d - 1), self.num(d - 1)] for _ in range(n)],
                    self.num(d - 1) if self.r.random() < 0.6 else None, self.alias()]
        if r < 0.93:
            return ["cast", self.num(d - 1), self.r.choice(["SIGNED", "varchar(10)"]), self.alias()]
        return self.num_leaf()

    def operand(self, d):
        """operand of a comparison: numeric expression, or (rarely) a sub-query"""
        if self.with_sub and self.r.random() < 0.08:
            return ["sub", self.alias()]
        if self.p_crit and self.r.random() < self.p_crit:
            return self.boolean(d)
        return self.num(d)

    def strv(self, d):
        if self.r.random() < 0.7:
            return ["vals", self.string(), self.alias()]
        return self.field()

    def boolean(self, d):
        r = self.r.random()
        if d <= 0 or r < 0.35:
            op = self.r.choice(EQUALITY)
            if self.r.random() < 0.25:
                return ["basic", self.r.choice(MATCHING), self.field(), ["vals", self.string(), None], self.alias()]
            return ["basic", op, self.operand(max(d - 1, 0)), self.operand(max(d - 1, 0)), self.alias()]
        if r < 0.6:
            return ["cplx", self.r.choice(["and", "or", "xor"]), self.boolean(d - 1), self.boolean(d - 1), self.alias()]
        if r < 0.68:
            return ["not", self.boolean(d - 1), self.alias()]
        if r < 0.76:
            n = self.r.choice([0, 1, 2, 3])
            cont = ["tuple", [self.r.choice([self.num_leaf(), ["vals", self.string(), None]]) for _ in range(n)], None]
            if self.with_sub and self.r.random() < 0.2:
                cont = ["sub", None]
            return ["in", self.num(d - 1), cont, self.r.random() < 0.3, self.alias()]
        if r < 0.83:
            return ["between", self.num(d - 1), self.num(d - 1), self.num(d - 1), self.alias()]
        if r < 0.9:
            return [self.r.choice(["isnull", "notnull"]), self.num(d - 1), self.alias()]
        if r < 0.94:
            return ["bitand", self.num(d - 1), self.r.choice([1, 2, 255]), self.alias()]
        if r < 0.96:
            return ["valb", self.r.random() < 0.5, self.r.random() < 0.3, self.alias()]
        return ["basic", "eq", self.strv(d - 1), self.strv(d - 1), self.alias()]

    def any(self, d):
        r = self.r.random()
        if r < 0.5:
            return self.num(d)
        if r < 0.75:
            return self.boolean(d)
        if r < 0.9:
            return self.strv(d)
        if r < 0.94:
            n = self.r.choice([0, 1, 2])
            return [self.r.choice(["tuple", "array"]), [self.num_leaf() for _ in range(n)], self.alias()]
        if r < 0.97 and self.with_sub:
            return ["sub", self.alias()]
        return ["star", self.table()]

    def malformed(self, d):
        """ill-typed / unrenderable nestings: empties inside, CASE without WHEN, criteria as operands"""
        r = self.r.random()
        if r < 0.2:
            return ["case", [], None, None]
        if r < 0.4:
            return ["cplx", "and", ["empty"], self.boolean(d - 1), None]
        if r < 0.6:
            return ["arith", self.r.choice(list(AOP)), self.boolean(d - 1), self.num(d - 1), self.alias()]
        if r < 0.8:
            return ["basic", "eq", self.field(), self.boolean(d - 1), self.alias()]
        return ["not", ["empty"], None]


def size(t):
    if not isinstance(t, list):
        return 0
    return 1 + sum(size(x) for x in t[1:] if isinstance(x, list))


def kinds(t, acc=None):
    acc = acc if acc is not None else {}
    if isinstance(t, list) and t and isinstance(t[0], str) and t[0] in KINDS:
        acc[t[0]] = acc.get(t[0], 0) + 1
        for x in t[1:]:
            if isinstance(x, list):
                if x and isinstance(x[0], list):
                    for y in x:
                        if isinstance(y, list) and y and isinstance(y[0], list):
                            for z in y:
                                kinds(z, acc)
                        else:
                            kinds(y, acc)
                else:
                    kinds(x, acc)
    return acc


KINDS = {"field", "star", "vals", "vali", "valb", "valnone", "valf", "vald", "lit", "null", "param", "neg", "arith", "basic",
         "cplx", "in", "between", "bitand", "isnull", "notnull", "not", "all", "empty", "case", "func", "cast", "tuple",
         "array", "sub"}
