"""Sub-process entry for the PYTHONHASHSEED experiment: reads {"cases": [...]} on stdin, builds each case with the
same construction script, applies its history once and prints the (hash-masked) results."""
import json
import sys


def main():
    from harness.c09 import observe
    data = json.load(sys.stdin)
    out = []
    for c in data["cases"]:
        try:
            out.append(observe.run_plain(c))
        except Exception as e:  # harness trouble must be visible, not silently equal
            out.append({"worker_exc": "%s: %s" % (type(e).__name__, e)})
    json.dump({"results": out}, sys.stdout)


if __name__ == "__main__":
    main()
