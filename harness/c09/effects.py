"""Static effect extraction for C09 (fail-closed `ast` walk over pypika's observer methods).

Produces, from the *current* sources below `<repo>/pypika` (tests excluded):

* the class table (qualified class -> all ancestors),
* the set of analysed functions: every observer root (`get_sql`, `*_sql`, `__str__`, `__repr__`, `__hash__`, `__eq__`,
  `__ne__`, `fields_`, `tables_`, `nodes_`, `find_`, `is_aggregate`, `get_table_name`, ...) plus everything they can
  call (resolution by *name* over all classes: an over-approximation of dynamic dispatch), plus every `__init__`
  (constructor calls inside observers; analysed with a fresh `self`),
* `writes`: writes to state that outlives the call (attribute/subscript assignment, `del`, augmented assignment,
  mutator calls, `setattr`, rooted at self / a parameter / a global / anything read from them), mutable parameter
  defaults, `global`/`nonlocal`, caching decorators, calls of @builder methods, dynamic constructs (`exec`, `vars` ...),
* `set_iterations`: ordered consumption (for, comprehension, join, list(), sorted(), str(), unpacking ...) of a
  set-valued expression (set attribute by any assignment in pypika, `set(...)`, `{..}`, results of set-returning
  methods such as `fields_()`/`tables_`, set algebra on those),
* `excluded`: parameter collectors' `update_parameters` (mutated on purpose; excluded by the property's wording).

Writes to the local `**kwargs` dict and to objects created inside the call are allowed.  A dict parameter that is
mutated (`_set_kwargs_defaults(self, kwargs)`) is allowed only if every call site passes its own `**kwargs` dict or a
fresh object; for an observer root it counts as a write to the caller's object.
"""
import ast
import os

ROOT_NAMES = {
    "get_sql", "__str__", "__repr__", "__hash__", "__eq__", "__ne__", "fields_", "tables_", "nodes_", "find_",
    "is_aggregate", "get_table_name", "_orderby_field", "_list_aliases", "get_parameters", "placeholder",
    "get_param_key", "needs_brackets", "left_needs_parens", "right_needs_parens", "get_formatted_value",
    "_set_kwargs_defaults", "_apply_pagination", "_column_clauses", "_period_for_clauses", "_unique_key_clauses",
    "_primary_key_clause", "_foreign_key_clause", "__getattr__", "ignore_copy", "__and__", "__or__", "__xor__", "__invert__", "__pos__", "__neg__",
}
# roots by pattern: every name ending in "_sql"
NOT_ROOT = {"__init__", "__copy__", "__new__", "__call__"}
KNOWN_DECORATORS = {"staticmethod", "classmethod", "property", "builder", "ignore_copy", "abc.abstractmethod",
                    "abstractmethod"}
MUTATORS = {"append", "extend", "insert", "remove", "pop", "popitem", "clear", "sort", "reverse", "add", "discard",
            "update", "setdefault", "difference_update", "intersection_update", "symmetric_difference_update",
            "__setitem__", "__delitem__", "__setattr__", "__delattr__", "appendleft", "popleft", "extendleft",
            "__iadd__", "__ior__", "__iand__", "__isub__", "__ixor__", "__imul__"}
_BUILTIN_TYPES = (str, bytes, list, tuple, dict, set, frozenset, int, float, bool)
BUILTIN_METHODS = {n for T in _BUILTIN_TYPES for n in dir(T)} | {"isoformat", "sub", "match", "search", "findall",
                                                                  "from_iterable", "fromkeys", "hex", "total_seconds"}
FRESH_BUILTINS = {"str", "int", "float", "bool", "len", "list", "dict", "set", "frozenset", "tuple", "sorted", "sum",
                  "any", "all", "hash", "isinstance", "issubclass", "hasattr", "callable", "repr", "format", "abs",
                  "zip", "map", "filter", "enumerate", "reversed", "range", "id", "copy", "deepcopy", "round", "ord",
                  "chr", "bytes", "divmod", "slice", "object"}
SHARED_BUILTINS = {"getattr", "reduce", "next", "max", "min", "iter", "print", "type", "super"}
DYNAMIC = {"exec", "eval", "vars", "globals", "locals", "__import__", "compile", "delattr"}
NARROW_TYPES = {"str", "int", "float", "bool", "list", "tuple", "dict", "set", "frozenset", "date", "datetime",
                "Enum", "bytes"}
SCALAR_ANN = {"str", "bool", "int", "float", "None", "Optional[str]", "Optional[bool]", "Optional[int]"}
SET_EXEMPT_CONSUMERS = {"any", "all", "set", "frozenset", "sum", "len", "bool"}
SET_ORDERED_CONSUMERS = {"list", "tuple", "sorted", "enumerate", "zip", "map", "filter", "iter", "next", "reversed",
                         "min", "max", "str", "repr", "format", "reduce", "print", "dict"}
SET_SAFE_CALLS = SET_EXEMPT_CONSUMERS | {"isinstance", "copy", "hash", "type", "id", "callable", "hasattr"}
SET_METHODS_SET = {"union", "intersection", "difference", "symmetric_difference", "copy"}
SET_METHODS_SAFE = {"issubset", "issuperset", "isdisjoint", "__contains__", "add", "discard", "remove", "update",
                    "clear", "difference_update", "intersection_update"} | SET_METHODS_SET
ALLOWED = {"F", "K"}
BINOP_DUNDER = {"Add": "add", "Sub": "sub", "Mult": "mul", "Div": "truediv", "FloorDiv": "floordiv", "Mod": "mod",
                "Pow": "pow", "LShift": "lshift", "RShift": "rshift", "BitAnd": "and", "BitOr": "or", "BitXor": "xor",
                "MatMult": "matmul"}
UNARY_DUNDER = {"Invert": "__invert__", "USub": "__neg__", "UAdd": "__pos__"}


class ExtractionError(Exception):
    pass


class Fn:
    def __init__(self, qual, cls, name, node, module, nested_in=None):
        self.qual, self.cls, self.name, self.node, self.module = qual, cls, name, node, module
        self.decorators = [ast.unparse(d) for d in node.decorator_list]
        self.is_builder = "builder" in self.decorators
        self.is_property = "property" in self.decorators
        self.is_static = "staticmethod" in self.decorators
        self.is_classmethod = "classmethod" in self.decorators
        a = node.args
        self.pos = [x.arg for x in a.posonlyargs + a.args]
        self.kwonly = [x.arg for x in a.kwonlyargs]
        self.vararg = a.vararg.arg if a.vararg else None
        self.kwarg = a.kwarg.arg if a.kwarg else None
        self.self_name = self.pos[0] if (cls and not self.is_static and self.pos) else None
        self.ret_ann = ast.unparse(node.returns).strip("'\"") if node.returns is not None else None
        self.is_generator = any(isinstance(n, (ast.Yield, ast.YieldFrom)) for n in ast.walk(node))
        # summaries (fixpoint)
        self.ret_fresh = True
        self.ret_set = False
        self.mut_params = set()


class Sources:
    def __init__(self, repo):
        self.repo = repo
        self.modules = {}      # mod -> ast.Module
        self.classes = {}      # qual -> dict(bases=[raw], node=, module=, resolved=[qual...])
        self.fns = {}          # qual -> Fn
        self.by_name = {}      # bare name -> [Fn]
        self.modnames = {}     # mod -> {name: ('class', qual) | ('fn', qual)}
        self._load()

    def _load(self):
        root = os.path.join(self.repo, "pypika")
        if not os.path.isdir(root):
            raise ExtractionError("no pypika package below %s" % self.repo)
        for d, dirs, files in os.walk(root):
            dirs[:] = sorted(x for x in dirs if x not in ("tests", "__pycache__"))
            for f in sorted(files):
                if not f.endswith(".py"):
                    continue
                p = os.path.join(d, f)
                mod = os.path.relpath(p, root)[:-3].replace(os.sep, ".")
                with open(p, encoding="utf-8") as fh:
                    self.modules[mod] = ast.parse(fh.read(), filename=p)
        for mod, tree in self.modules.items():
            self._collect(mod, tree.body, prefix=mod, cls=None)
        for mod, tree in self.modules.items():
            self._names(mod, tree)
        for q, c in self.classes.items():
            c["resolved"] = [r for r in (self.resolve_class(c["module"], b) for b in c["bases"]) if r]
        for fn in self.fns.values():
            self.by_name.setdefault(fn.name, []).append(fn)

    def _collect(self, mod, body, prefix, cls):
        for n in body:
            if isinstance(n, ast.ClassDef):
                q = prefix + "." + n.name
                self.classes[q] = {"bases": [ast.unparse(b) for b in n.bases], "node": n, "module": mod}
                self._collect(mod, n.body, q, q)
            elif isinstance(n, (ast.FunctionDef, ast.AsyncFunctionDef)):
                q = prefix + "." + n.name
                if q in self.fns:
                    q = q + "@%d" % n.lineno
                self.fns[q] = Fn(q, cls, n.name, n, mod)
            elif isinstance(n, (ast.If, ast.Try)):
                self._collect(mod, [x for x in ast.iter_child_nodes(n) if isinstance(x, ast.stmt)], prefix, cls)

    def _names(self, mod, tree):
        names = {}
        for n in ast.walk(tree):
            if isinstance(n, ast.ImportFrom) and n.module and (n.module == "pypika" or n.module.startswith("pypika.") or n.level):
                src = n.module[len("pypika"):].lstrip(".") if n.module.startswith("pypika") else n.module
                for a in n.names:
                    names[a.asname or a.name] = ("import", src, a.name)
        for q, c in self.classes.items():
            if c["module"] == mod and q.count(".") == mod.count(".") + 1:
                names[q.rsplit(".", 1)[1]] = ("class", q)
        for q, f in self.fns.items():
            if f.module == mod and f.cls is None and q.count(".") == mod.count(".") + 1:
                names[f.name] = ("fn", q)
        self.modnames[mod] = names

    def lookup(self, mod, name, depth=0):
        """bare name used in module `mod` -> ('class'|'fn', qual) or None"""
        ent = self.modnames.get(mod, {}).get(name)
        if ent is None:
            return None
        if ent[0] != "import":
            return ent
        _, src, orig = ent
        if depth > 4:
            return None
        if src and src in self.modules:
            r = self.lookup(src, orig, depth + 1)
            if r:
                return r
        if not src or src == "":
            r = self.lookup("__init__", orig, depth + 1) if mod != "__init__" else None
            if r:
                return r
        # fall back: unique class / function of that bare name anywhere
        cands = [q for q in self.classes if q.rsplit(".", 1)[1] == orig and q.count(".") == self.classes[q]["module"].count(".") + 1]
        for pref in ("terms.", "queries.", "dialects.", "utils.", "enums."):
            for q in cands:
                if q.startswith(pref):
                    return ("class", q)
        if cands:
            return ("class", sorted(cands)[0])
        fc = [q for q, f in self.fns.items() if f.cls is None and f.name == orig]
        if fc:
            return ("fn", sorted(fc)[0])
        return None

    def resolve_class(self, mod, raw):
        head, _, rest = raw.partition(".")
        r = self.lookup(mod, head)
        if r and r[0] == "class":
            q = r[1] + ("." + rest if rest else "")
            return q if q in self.classes else None
        return None

    def ancestors(self, q):
        out, todo = [], [q]
        while todo:
            c = todo.pop(0)
            if c in out:
                continue
            out.append(c)
            todo += self.classes.get(c, {}).get("resolved", [])
        return out


def re_inplace(name):
    return name.startswith("__i") and name.endswith("__") and name[3:-2] in set(BINOP_DUNDER.values())


def _origin_ok(o):
    return o <= ALLOWED


class Analysis:
    def __init__(self, repo):
        self.src = Sources(repo)
        self.diagnostics = []
        self.property_names = {f.name for f in self.src.fns.values() if f.is_property}
        self.pyp_names = set(self.src.by_name)
        self.set_attrs = set()
        # operator methods that may hand back one of their operands (`EmptyCriterion() & c` is c, `+t` is t): the result
        # of such an operator aliases its operands.  Syntactic and fail closed: some `return` whose value is not a call /
        # constant / comparison / boolean / arithmetic expression.
        self.aliasing_dunders = set()
        for f in self.src.fns.values():
            if f.cls and f.name.startswith("__") and f.name.endswith("__") and f.name not in ("__init__", "__new__", "__copy__"):
                for n in ast.walk(f.node):
                    if isinstance(n, ast.Return) and n.value is not None and not isinstance(
                            n.value, (ast.Call, ast.Constant, ast.Compare, ast.BoolOp, ast.BinOp, ast.JoinedStr)) and not (
                            isinstance(n.value, ast.UnaryOp) and isinstance(n.value.op, ast.Not)):
                        self.aliasing_dunders.add(f.name)
            if f.cls and re_inplace(f.name):
                raise ExtractionError("in-place operator %s defined by %s: augmented assignment may mutate" % (f.name, f.qual))
        self._compute_set_summaries()
        self.roots = [f for f in self.src.fns.values() if self._is_root(f)]
        self.analysed = self._closure()
        # interprocedural fixpoint of return-freshness and parameter mutation
        for _ in range(12):
            changed = False
            for f in self.analysed.values():
                r = FnWalk(self, f).summaries()
                if (r["ret_fresh"], r["mut_params"]) != (f.ret_fresh, f.mut_params):
                    f.ret_fresh, f.mut_params = r["ret_fresh"], r["mut_params"]
                    changed = True
            if not changed:
                break
        else:
            raise ExtractionError("effect summaries did not stabilise")
        self.writes, self.set_iterations, self.excluded, self.raise_iterations = [], [], [], []
        for q in sorted(self.analysed):
            f = self.analysed[q]
            if f.name == "update_parameters" and f.cls and "terms.Parameter" in self.src.ancestors(f.cls):
                self.excluded.append((f.cls, f.name))
                continue
            if f.is_builder:
                continue   # recorded only because an observer mentions its name; the call itself is what is reported
            w = FnWalk(self, f)
            w.effects()
            self.writes += w.writes
            self.set_iterations += w.set_iters
            self.raise_iterations += w.raise_iters

    # ---- roots / closure -------------------------------------------------------------------
    def _is_root(self, f):
        if f.name in NOT_ROOT or f.is_builder:
            return False
        return f.name in ROOT_NAMES or f.name.endswith("_sql")

    def callees(self, f):
        out = set()
        w = FnWalk(self, f)
        for n in ast.walk(f.node):
            if isinstance(n, ast.Call):
                if isinstance(n.func, ast.Name):
                    out.add(("name", n.func.id))
                elif isinstance(n.func, ast.Attribute):
                    if not w.is_builtin_receiver(n.func):
                        out.add(("attr", n.func.attr))
            elif isinstance(n, ast.Attribute) and n.attr in self.property_names:
                out.add(("attr", n.attr))
            elif isinstance(n, ast.Name) and isinstance(n.ctx, ast.Load):
                # a pypika function / class mentioned as a value (parameter default, stored callable): it may be called later
                r = self.src.lookup(f.module, n.id)
                if r and r[0] == "fn":
                    out.add(("name", n.id))
        return out

    def resolve_call(self, f, kind, name):
        """-> list of Fn the call may reach (by name); constructor calls reach every __init__"""
        if kind == "name":
            r = self.src.lookup(f.module, name)
            if r and r[0] == "fn":
                return [self.src.fns[r[1]]]
            if r and r[0] == "class":
                return list(self.src.by_name.get("__init__", []))
            return []
        return [g for g in self.src.by_name.get(name, []) if g.cls is not None or True]

    def _closure(self):
        seen, todo = {}, list(self.roots)
        while todo:
            f = todo.pop()
            if f.qual in seen:
                continue
            seen[f.qual] = f
            if f.is_builder:
                continue   # not descended into: a call of a builder from an observer is itself reported
            for kind, name in self.callees(f):
                if kind == "attr" and name in BUILTIN_METHODS | MUTATORS and name not in self.pyp_names:
                    continue
                for g in self.resolve_call(f, kind, name):
                    if g.qual not in seen:
                        todo.append(g)
        return seen

    # ---- set-valued attributes / set-returning functions (whole package, fixpoint) ----------
    def _compute_set_summaries(self):
        for _ in range(6):
            changed = False
            for q, c in self.src.classes.items():
                for st in c["node"].body:
                    if isinstance(st, (ast.Assign, ast.AnnAssign)) and st.value is not None:
                        tg = st.targets if isinstance(st, ast.Assign) else [st.target]
                        for t in tg:
                            if isinstance(t, ast.Name) and SetEval(self, None).is_set(st.value) and t.id not in self.set_attrs:
                                self.set_attrs.add(t.id); changed = True
            for f in self.src.fns.values():
                se = SetEval(self, f)
                for n in ast.walk(f.node):
                    if isinstance(n, (ast.Assign, ast.AnnAssign, ast.AugAssign)) and getattr(n, "value", None) is not None:
                        tg = n.targets if isinstance(n, ast.Assign) else [n.target]
                        for t in tg:
                            if isinstance(t, ast.Attribute) and se.is_set(n.value) and t.attr not in self.set_attrs:
                                self.set_attrs.add(t.attr); changed = True
                    elif isinstance(n, ast.Return) and n.value is not None and not f.ret_set and se.is_set(n.value):
                        f.ret_set = True; changed = True
            if not changed:
                return
        raise ExtractionError("set summaries did not stabilise")

    def name_returns_set(self, name):
        return any(g.ret_set for g in self.src.by_name.get(name, []))


class SetEval:
    """which expressions are (possibly) sets"""

    def __init__(self, an, f):
        self.an, self.f = an, f
        self.names = set()
        if f is not None:
            for _ in range(4):
                before = len(self.names)
                for n in ast.walk(f.node):
                    if isinstance(n, ast.Assign) and self.is_set(n.value):
                        for t in n.targets:
                            if isinstance(t, ast.Name):
                                self.names.add(t.id)
                    elif isinstance(n, (ast.AnnAssign, ast.AugAssign, ast.NamedExpr)) and n.value is not None \
                            and isinstance(n.target, ast.Name) and self.is_set(n.value):
                        self.names.add(n.target.id)
                if len(self.names) == before:
                    break

    def is_set(self, e):
        if isinstance(e, (ast.Set, ast.SetComp)):
            return True
        if isinstance(e, ast.Call):
            fn = e.func
            if isinstance(fn, ast.Name):
                if fn.id in ("set", "frozenset"):
                    return True
                if fn.id in ("copy", "deepcopy") and e.args:
                    return self.is_set(e.args[0])
                r = self.an.src.lookup(self.f.module, fn.id) if self.f else None
                return bool(r and r[0] == "fn" and self.an.src.fns[r[1]].ret_set)
            if isinstance(fn, ast.Attribute):
                if fn.attr in SET_METHODS_SET and self.is_set(fn.value):
                    return True
                return self.an.name_returns_set(fn.attr)
            return False
        if isinstance(e, ast.Attribute):
            if e.attr in self.an.set_attrs:
                return True
            return e.attr in self.an.property_names and self.an.name_returns_set(e.attr)
        if isinstance(e, ast.Name):
            return e.id in self.names
        if isinstance(e, ast.BinOp) and isinstance(e.op, (ast.BitOr, ast.BitAnd, ast.Sub, ast.BitXor)):
            return self.is_set(e.left) or self.is_set(e.right)
        if isinstance(e, ast.IfExp):
            return self.is_set(e.body) or self.is_set(e.orelse)
        if isinstance(e, ast.BoolOp):
            return any(self.is_set(v) for v in e.values)
        if isinstance(e, ast.NamedExpr):
            return self.is_set(e.value)
        return False


class FnWalk:
    def __init__(self, an, f):
        self.an, self.f = an, f
        self.node = f.node
        self.parents = {}
        for p in ast.walk(self.node):
            for c in ast.iter_child_nodes(p):
                self.parents[c] = p
        self.fresh_self = f.name == "__init__"
        self.params = {}
        ann = {x.arg: (ast.unparse(x.annotation).strip("'\"") if x.annotation is not None else None)
               for x in f.node.args.posonlyargs + f.node.args.args + f.node.args.kwonlyargs}
        self.str_params = {p for p, a in ann.items() if a in ("str", "Optional[str]")}
        for p in f.pos + f.kwonly:
            self.params[p] = {"F"} if ann.get(p) in SCALAR_ANN else {"P:" + p}
        if f.self_name:
            self.params[f.self_name] = {"F"} if self.fresh_self else {"S"}
        if f.is_classmethod and f.pos:
            self.params[f.pos[0]] = {"G"}
        if f.vararg:
            self.params[f.vararg] = {"P:" + f.vararg}
        if f.kwarg:
            self.params[f.kwarg] = {"K"}
        # nested function definitions / lambdas: their parameters are unknown values, their **kw a local dict
        for n in ast.walk(self.node):
            if n is not self.node and isinstance(n, (ast.FunctionDef, ast.AsyncFunctionDef, ast.Lambda)):
                a = n.args
                for x in a.posonlyargs + a.args + a.kwonlyargs + ([a.vararg] if a.vararg else []):
                    self.params.setdefault(x.arg, {"H"})
                if a.kwarg:
                    self.params.setdefault(a.kwarg.arg, {"K"})
        self.globals_decl = set()
        for n in ast.walk(self.node):
            if isinstance(n, (ast.Global, ast.Nonlocal)):
                self.globals_decl |= set(n.names)
        self.local_classes = {}
        for n in ast.walk(self.node):
            if isinstance(n, ast.ImportFrom):
                for a in n.names:
                    self.local_classes[a.asname or a.name] = a.name
        self.env = {}
        self.sets = SetEval(an, f)
        self._env_fixpoint()
        self.writes, self.set_iters, self.raise_iters = [], [], []
        self._mut = set()

    # ---- origins ----------------------------------------------------------------------------
    def _bind(self, target, o):
        if isinstance(target, ast.Name):
            cur = self.env.get(target.id, set())
            if not o <= cur:
                self.env[target.id] = cur | o
                self._changed = True
        elif isinstance(target, (ast.Tuple, ast.List)):
            for t in target.elts:
                self._bind(t, {"H"} if not _origin_ok(o) or True else o)
        elif isinstance(target, ast.Starred):
            self._bind(target.value, {"H"})

    def _env_fixpoint(self):
        for _ in range(8):
            self._changed = False
            for n in ast.walk(self.node):
                if isinstance(n, ast.Assign):
                    o = self.ev(n.value)
                    for t in n.targets:
                        self._bind(t, o)
                elif isinstance(n, ast.AnnAssign) and n.value is not None:
                    self._bind(n.target, self.ev(n.value))
                elif isinstance(n, ast.AugAssign) and isinstance(n.target, ast.Name):
                    # x op= y rebinds x to the operator's result as well (which may be y itself: `crit &= term`)
                    self._bind(n.target, self.ev(n.value) if self.op_aliases(n.op) else {"F"})
                elif isinstance(n, ast.NamedExpr):
                    self._bind(n.target, self.ev(n.value))
                elif isinstance(n, (ast.For, ast.AsyncFor)):
                    self._bind(n.target, {"H"})
                elif isinstance(n, ast.comprehension):
                    self._bind(n.target, {"H"})
                elif isinstance(n, ast.withitem) and n.optional_vars is not None:
                    self._bind(n.optional_vars, {"H"})
                elif isinstance(n, ast.ExceptHandler) and n.name:
                    self._bind(ast.Name(id=n.name), {"F"})
                elif isinstance(n, (ast.Import, ast.ImportFrom)):
                    for a in n.names:
                        self._bind(ast.Name(id=(a.asname or a.name).split(".")[0]), {"G"})
                elif isinstance(n, (ast.FunctionDef, ast.AsyncFunctionDef, ast.ClassDef)) and n is not self.node:
                    self._bind(ast.Name(id=n.name), {"F"})
            if not self._changed:
                return
        raise ExtractionError("origin analysis did not stabilise in " + self.f.qual)

    def ev(self, e):
        if isinstance(e, ast.Name):
            if e.id in self.globals_decl:
                return {"G"}
            o = set()
            if e.id in self.env:
                o |= self.env[e.id]
            if e.id in self.params:
                o |= self.params[e.id]
            return o or {"G"}
        if isinstance(e, ast.BinOp):
            if self.op_aliases(e.op):
                return self.ev(e.left) | self.ev(e.right)
            return {"F"}
        if isinstance(e, ast.UnaryOp):
            if UNARY_DUNDER.get(type(e.op).__name__) in self.an.aliasing_dunders:
                return self.ev(e.operand)
            return {"F"}
        if isinstance(e, (ast.Constant, ast.JoinedStr, ast.FormattedValue, ast.Compare, ast.Lambda,
                          ast.List, ast.Tuple, ast.Set, ast.Dict, ast.ListComp, ast.SetComp, ast.DictComp,
                          ast.GeneratorExp, ast.Slice)):
            return {"F"}
        if isinstance(e, ast.BoolOp):
            o = set()
            for v in e.values:
                o |= self.ev(v)
            return o
        if isinstance(e, ast.IfExp):
            return self.ev(e.body) | self.ev(e.orelse)
        if isinstance(e, ast.NamedExpr):
            return self.ev(e.value)
        if isinstance(e, ast.Starred):
            return self.ev(e.value)
        if isinstance(e, (ast.Attribute, ast.Subscript)):
            b = self.ev(e.value)
            return {"G"} if b == {"G"} else {"H"}
        if isinstance(e, ast.Call):
            return self.call_result(e)
        if isinstance(e, (ast.Yield, ast.YieldFrom, ast.Await)):
            return {"H"}
        raise ExtractionError("unknown expression %s in %s" % (type(e).__name__, self.f.qual))

    def op_aliases(self, op):
        d = BINOP_DUNDER.get(type(op).__name__)
        return d is not None and bool({"__%s__" % d, "__r%s__" % d} & self.an.aliasing_dunders)

    def _ret_origin(self, fns):
        return {"F"} if fns and all(g.ret_fresh for g in fns) else {"H"}

    def call_result(self, e):
        fn = e.func
        if isinstance(fn, ast.Name):
            n = fn.id
            if n in self.env or n in self.params:
                return {"H"}
            r = self.an.src.lookup(self.f.module, n)
            if r is None and n in self.local_classes:
                r = self.an.src.lookup("__init__", self.local_classes[n]) or self.an.src.lookup(self.f.module, n)
            if r and r[0] == "class":
                return {"F"}
            if r and r[0] == "fn":
                return self._ret_origin([self.an.src.fns[r[1]]])
            if n in FRESH_BUILTINS:
                return {"F"}
            if n == "type":
                return {"G"}
            if n == "super":
                return set(self.params.get(self.f.self_name, {"S"})) if self.f.self_name else {"G"}
            return {"H"}
        if isinstance(fn, ast.Attribute):
            m = fn.attr
            if m == "__new__":
                return {"F"}
            if self.is_builtin_receiver(fn):
                return {"H"} if m in ("get", "pop", "setdefault", "popitem") else {"F"}
            if m in self.an.pyp_names:
                return self._ret_origin(self.an.src.by_name[m])
            if m in MUTATORS or m in ("get",):
                return {"H"}
            if m in BUILTIN_METHODS:
                return {"F"}
            return {"H"}
        return {"H"}

    # a call `E.m(...)` whose name m is both a builtin-type method and a pypika method: decide by the receiver
    def narrowed_names(self, node):
        out = set()
        c = node
        while c in self.parents:
            p = self.parents[c]
            if isinstance(p, ast.If) and any(c is x for x in p.body):
                t = p.test
                if isinstance(t, ast.Call) and isinstance(t.func, ast.Name) and t.func.id == "isinstance" and len(t.args) == 2 \
                        and isinstance(t.args[0], ast.Name):
                    ty = t.args[1]
                    tys = ty.elts if isinstance(ty, ast.Tuple) else [ty]
                    if all(ast.unparse(x).split(".")[-1] in NARROW_TYPES for x in tys):
                        out.add(t.args[0].id)
            c = p
        return out

    def is_builtin_receiver(self, fn):
        """fn: ast.Attribute of a call.  True when the receiver is certainly a builtin value (str constant, f-string,
        a name narrowed by isinstance(x, str), a str-producing expression) and the method a builtin one."""
        if fn.attr not in BUILTIN_METHODS | MUTATORS:
            return False
        if fn.attr not in self.an.pyp_names:
            return True
        v = fn.value
        if isinstance(v, (ast.Constant, ast.JoinedStr, ast.List, ast.Dict, ast.Set, ast.Tuple, ast.ListComp, ast.BinOp)):
            return True
        if isinstance(v, ast.Name):
            if v.id in self.narrowed_names(fn):
                return True
            if v.id in self.str_params and v.id not in self.env:
                return True     # a parameter declared `: str` that is never rebound: a builtin string
            if v.id == "str":
                return True
            o = self.ev(v)
            if o <= ALLOWED and v.id not in self.params:
                # local bound only to fresh values: an f-string / format result / list literal ...
                return True
        if isinstance(v, ast.Call) and isinstance(v.func, ast.Attribute) and isinstance(v.func.value, (ast.Constant, ast.JoinedStr)):
            return True
        if isinstance(v, ast.Call):
            # result of pypika function(s) that are all declared `-> str`
            defs = []
            if isinstance(v.func, ast.Attribute) and v.func.attr in self.an.pyp_names and not self.is_builtin_receiver(v.func):
                defs = self.an.src.by_name[v.func.attr]
            elif isinstance(v.func, ast.Name):
                r = self.an.src.lookup(self.f.module, v.func.id)
                if r and r[0] == "fn":
                    defs = [self.an.src.fns[r[1]]]
                elif v.func.id in ("str", "repr", "format"):
                    return True
            if defs and all(g.ret_ann == "str" for g in defs):
                return True
        return False

    # ---- summaries ---------------------------------------------------------------------------
    def summaries(self):
        rf = True
        if not self.f.is_generator and self.f.ret_ann not in SCALAR_ANN:
            for n in ast.walk(self.node):
                if isinstance(n, ast.Return) and n.value is not None and self._owner(n) is self.node:
                    if not self.ev(n.value) <= {"F"}:
                        rf = False
        self.effects()
        return {"ret_fresh": rf, "mut_params": set(self._mut)}

    def _owner(self, n):
        c = n
        while c in self.parents:
            c = self.parents[c]
            if isinstance(c, (ast.FunctionDef, ast.AsyncFunctionDef, ast.Lambda)):
                return c
        return None

    # ---- effects -----------------------------------------------------------------------------
    def _w(self, node, target, kind, scope="global", attr=None):
        self.writes.append({"cls": self.f.cls or "", "fn": self.f.qual, "method": self.f.name, "target": target,
                            "kind": kind, "line": getattr(node, "lineno", 0), "scope": scope,
                            "attr": attr if attr is not None else target})

    def _root_and_first_attr(self, expr):
        """`self._x.y[0]` -> ("self", "_x");  `other` -> ("other", None)"""
        first = None
        e = expr
        while True:
            if isinstance(e, ast.Attribute):
                first = e.attr
                e = e.value
            elif isinstance(e, ast.Subscript):
                e = e.value
            elif isinstance(e, ast.Call) and isinstance(e.func, ast.Attribute):
                e = e.func.value
            elif isinstance(e, ast.Call) and isinstance(e.func, ast.Name) and e.func.id == "super":
                return self.f.self_name, first
            else:
                break
        return (e.id if isinstance(e, ast.Name) else None), first

    def _mutation(self, node, expr, how, attr=None):
        """`expr` is the object being mutated (receiver / base of the assigned attribute or item)"""
        o = self.ev(expr)
        if _origin_ok(o):
            return
        ps = {x[2:] for x in o if x.startswith("P:")}
        rest = {x for x in o if not x.startswith("P:")} - ALLOWED
        txt = ast.unparse(expr)
        for p in ps:
            self._mut.add(p)
        root, first = self._root_and_first_attr(expr)
        a = first if first is not None else (attr if attr is not None else "*")
        if rest:
            if root is not None and root == self.f.self_name and not self.fresh_self:
                self._w(node, "%s %s" % (how, txt), "self", "class", a)
            elif rest == {"G"}:
                self._w(node, "%s %s" % (how, txt), "global", "global")
            else:
                self._w(node, "%s %s" % (how, txt), "reachable", "anywhere", a)
        elif self.an._is_root(self.f) and self.f.name != "_set_kwargs_defaults":
            self._w(node, "%s %s" % (how, txt), "arg", "anywhere", a)

    def effects(self):
        self.writes, self.set_iters, self.raise_iters, self._mut = [], [], [], set()
        f = self.f
        # decorators that keep state
        for d in f.decorators:
            base = d.split("(")[0]
            if base not in KNOWN_DECORATORS and not base.endswith(".setter"):
                self._w(self.node, "decorator @" + d, "decorator")
        # mutable parameter defaults
        a = self.node.args
        defaults = list(zip((a.posonlyargs + a.args)[len(a.posonlyargs + a.args) - len(a.defaults):], a.defaults)) + \
            [(x, d) for x, d in zip(a.kwonlyargs, a.kw_defaults) if d is not None]
        for arg, d in defaults:
            if isinstance(d, (ast.List, ast.Dict, ast.Set, ast.ListComp, ast.DictComp, ast.SetComp)) or \
                    (isinstance(d, ast.Call) and not (isinstance(d.func, ast.Name) and d.func.id in (
                        "tuple", "frozenset", "str", "int", "float", "bool", "bytes", "object"))):
                self._w(d, "default %s=%s" % (arg.arg, ast.unparse(d)), "default")
        for n in ast.walk(self.node):
            if isinstance(n, (ast.Global, ast.Nonlocal)):
                self._w(n, "%s %s" % (type(n).__name__.lower(), ",".join(n.names)), "global")
            elif isinstance(n, (ast.Assign, ast.AnnAssign, ast.AugAssign, ast.Delete, ast.For, ast.AsyncFor, ast.comprehension,
                                ast.withitem, ast.NamedExpr)):
                if isinstance(n, ast.Assign):
                    tg = list(n.targets)
                elif isinstance(n, ast.Delete):
                    tg = list(n.targets)
                elif isinstance(n, ast.withitem):
                    tg = [n.optional_vars] if n.optional_vars is not None else []
                else:
                    tg = [n.target]
                how = {"Delete": "del", "AugAssign": "augassign"}.get(type(n).__name__, "assign")
                for t in tg:
                    self._target(n, t, how)
            elif isinstance(n, ast.Call):
                self._call(n)
        self._set_iterations()

    def _target(self, node, t, how):
        if isinstance(t, (ast.Tuple, ast.List)):
            for x in t.elts:
                self._target(node, x, how)
        elif isinstance(t, ast.Starred):
            self._target(node, t.value, how)
        elif isinstance(t, (ast.Attribute, ast.Subscript)):
            self._mutation(node, t.value, how + (" ." + t.attr + " of" if isinstance(t, ast.Attribute) else " [] of"),
                           attr=t.attr if isinstance(t, ast.Attribute) else None)
        elif isinstance(t, ast.Name):
            if t.id in self.globals_decl:
                self._w(node, how + " global " + t.id, "global")
            elif how == "augassign":
                o = set(self.env.get(t.id, set())) | set(self.params.get(t.id, set()))
                # in-place for lists/sets/dicts: only harmless when the name is bound to call-local values
                o2 = set()
                for n in ast.walk(self.node):
                    if isinstance(n, ast.Assign) and any(isinstance(x, ast.Name) and x.id == t.id for x in n.targets):
                        o2 |= self.ev(n.value)
                    elif isinstance(n, ast.AnnAssign) and isinstance(n.target, ast.Name) and n.target.id == t.id and n.value is not None:
                        o2 |= self.ev(n.value)
                o2 |= set(self.params.get(t.id, set()))
                if t.id in self.env and not o2 and t.id not in self.params:
                    o2 = {"H"}
                if not _origin_ok(o2):
                    self._mutation(node, t, "augassign")

    def _call(self, n):
        fn = n.func
        f = self.f
        if isinstance(fn, ast.Name):
            name = fn.id
            if name in DYNAMIC:
                self._w(n, "dynamic construct %s(...)" % name, "dynamic")
                return
            if name == "setattr" and n.args:
                self._mutation(n, n.args[0], "setattr")
                return
            if name in self.env or name in self.params:
                return
            r = self.an.src.lookup(f.module, name)
            if r and r[0] == "fn":
                self._args_into(n, [self.an.src.fns[r[1]]], method=False)
            elif r and r[0] == "class":
                self._args_into(n, [g for g in self.an.src.by_name.get("__init__", [])
                                    if g.cls in self.an.src.ancestors(r[1])], method=True)
            return
        if not isinstance(fn, ast.Attribute):
            return
        m = fn.attr
        if m in ("__setattr__", "__delattr__", "__setitem__", "__delitem__") and n.args:
            recv = n.args[0] if isinstance(fn.value, ast.Name) and fn.value.id == "object" else fn.value
            self._mutation(n, recv, m)
            return
        if self.is_builtin_receiver(fn) or (m in MUTATORS and m not in self.an.pyp_names):
            if m in MUTATORS:
                self._mutation(n, fn.value, "." + m + "() on")
            return
        if m in self.an.pyp_names:
            defs = self.an.src.by_name[m]
            if any(g.is_builder for g in defs):
                if m in MUTATORS and _origin_ok(self.ev(fn.value)):
                    return
                self._w(n, "call of builder/mutator .%s() on %s" % (m, ast.unparse(fn.value)), "builder")
                return
            self._args_into(n, defs, method=True)
            return
        if m in MUTATORS:
            self._mutation(n, fn.value, "." + m + "() on")

    def _args_into(self, call, defs, method):
        """propagate the callee's parameter mutations to the actual arguments"""
        for g in defs:
            if not g.mut_params:
                continue
            pos = list(g.pos)
            if method and g.self_name and pos:
                pos = pos[1:]
            elif method and g.is_classmethod and pos:
                pos = pos[1:]
            for i, a in enumerate(call.args):
                if isinstance(a, ast.Starred):
                    self._mutation(call, a.value, "passed to mutating %s as *" % g.qual)
                    continue
                p = pos[i] if i < len(pos) else g.vararg
                if p in g.mut_params:
                    self._mutation(call, a, "passed to mutating %s(%s=) :" % (g.qual, p))
            for kw in call.keywords:
                if kw.arg is None:
                    continue   # **d: the callee receives a copy
                if kw.arg in g.mut_params:
                    self._mutation(call, kw.value, "passed to mutating %s(%s=) :" % (g.qual, kw.arg))

    # ---- ordered consumption of sets -----------------------------------------------------------
    def _in_raise(self, node):
        c = node
        while c in self.parents:
            c = self.parents[c]
            if isinstance(c, ast.Raise):
                return True
            if isinstance(c, (ast.FunctionDef, ast.AsyncFunctionDef)):
                return False
        return False

    def _si(self, node, expr, how):
        if self._in_raise(node):
            self.raise_iters.append({"cls": self.f.cls or "", "fn": self.f.qual, "method": self.f.name,
                                     "source": ast.unparse(expr), "how": how + " (exception message)", "line": getattr(node, "lineno", 0)})
            return
        self.set_iters.append({"cls": self.f.cls or "", "fn": self.f.qual, "method": self.f.name,
                               "source": ast.unparse(expr), "how": how, "line": getattr(node, "lineno", 0)})

    def _set_iterations(self):
        s = self.sets.is_set
        for n in ast.walk(self.node):
            if isinstance(n, (ast.For, ast.AsyncFor)) and s(n.iter):
                self._si(n, n.iter, "for")
            elif isinstance(n, (ast.ListComp, ast.GeneratorExp, ast.DictComp, ast.SetComp)):
                for g in n.generators:
                    if not s(g.iter):
                        continue
                    if isinstance(n, ast.SetComp):
                        continue
                    p = self.parents.get(n)
                    if isinstance(p, ast.Call) and isinstance(p.func, ast.Name) and p.func.id in SET_EXEMPT_CONSUMERS \
                            and len(p.args) == 1 and p.args[0] is n:
                        continue
                    self._si(n, g.iter, "comprehension")
            elif isinstance(n, ast.Call):
                args = list(n.args) + [k.value for k in n.keywords]
                setargs = [a for a in args if s(a.value if isinstance(a, ast.Starred) else a)]
                if isinstance(n.func, ast.Name):
                    nm = n.func.id
                    for a in setargs:
                        if isinstance(a, ast.Starred):
                            self._si(n, a.value, "*unpack")
                        elif nm in SET_ORDERED_CONSUMERS:
                            self._si(n, a, nm + "()")
                        elif nm not in SET_SAFE_CALLS:
                            self._si(n, a, "escapes into %s()" % nm)
                elif isinstance(n.func, ast.Attribute):
                    m = n.func.attr
                    if s(n.func.value) and m == "pop":
                        self._si(n, n.func.value, ".pop()")
                    for a in setargs:
                        if isinstance(a, ast.Starred):
                            self._si(n, a.value, "*unpack")
                        elif s(n.func.value) and m in SET_METHODS_SAFE:
                            continue
                        elif m in SET_METHODS_SAFE and m not in self.an.pyp_names:
                            continue
                        else:
                            self._si(n, a, "." + m + "()")
            elif isinstance(n, ast.FormattedValue) and s(n.value):
                self._si(n, n.value, "f-string")
            elif isinstance(n, ast.BinOp) and isinstance(n.op, ast.Mod) and s(n.right):
                self._si(n, n.right, "% format")
            elif isinstance(n, ast.Assign) and s(n.value) and any(isinstance(t, (ast.Tuple, ast.List)) for t in n.targets):
                self._si(n, n.value, "unpack")
            elif isinstance(n, ast.Starred) and s(n.value) and not isinstance(self.parents.get(n), ast.Call):
                self._si(n, n.value, "*unpack")
            elif isinstance(n, (ast.YieldFrom,)) and s(n.value):
                self._si(n, n.value, "yield from")


def analyse(repo):
    return Analysis(repo)


# ------------------------------------------------------------------------------------------------
# Coq emission
# ------------------------------------------------------------------------------------------------
def _q(s):
    s = "".join(c if 32 <= ord(c) < 127 else "?" for c in str(s))
    return '"' + s.replace('"', '""') + '"'


def coq_table(an):
    """Gallina text of coq/gen/C09Table.v for an Analysis"""
    out = ["(* GENERATED by harness/c09/effects.py from %s/pypika -- do not edit. *)" % an.src.repo.replace("*)", "* )"),
           "From PV Require Import Base Purity.", ""]
    out.append("Definition classes_now : list (string * list string) := [")
    out.append(";\n".join("  (%s, [%s])" % (_q(c), "; ".join(_q(a) for a in an.src.ancestors(c)))
                          for c in sorted(an.src.classes)))
    out.append("].\n")
    ws = []
    for w in an.writes:
        sc = {"class": "(OnClass %s)" % _q(w["cls"]), "anywhere": "Anywhere", "global": "Global"}[w["scope"]]
        ws.append("  mkW %s %s %s %s" % (sc, _q(w["fn"]), _q(w["attr"]), _q("%s: %s (line %d)" % (w["kind"], w["target"], w["line"]))))
    out.append("Definition writes_now : list write_entry := [\n" + ";\n".join(ws) + "\n].\n")
    it = ["  mkI %s %s %s" % (_q(i["cls"]), _q(i["fn"]), _q("%s of %s (line %d)" % (i["how"], i["source"], i["line"])))
          for i in an.set_iterations]
    out.append("Definition set_iters_now : list iter_entry := [\n" + ";\n".join(it) + "\n].\n")
    ri = ["  mkI %s %s %s" % (_q(i["cls"]), _q(i["fn"]), _q("%s of %s (line %d)" % (i["how"], i["source"], i["line"])))
          for i in an.raise_iterations]
    out.append("(* set iterations that only feed the message of an exception being raised: the observation has no text *)")
    out.append("Definition raise_iters_now : list iter_entry := [\n" + ";\n".join(ri) + "\n].\n")
    out.append("Definition analysed_now : list string := [\n" + ";\n".join(
        "  " + _q(q) for q in sorted(an.analysed) if not an.analysed[q].is_builder) + "\n].\n")
    out.append("Definition excluded_now : list string := [" + "; ".join(_q(c + "." + m) for c, m in an.excluded) + "].\n")
    out.append("Definition table : effect_table := mkT classes_now writes_now set_iters_now raise_iters_now analysed_now excluded_now.")
    return "\n".join(out) + "\n"


def summary(an):
    return {"classes": len(an.src.classes), "functions": len(an.src.fns), "roots": len(an.roots),
            "analysed": len(an.analysed), "writes": an.writes, "set_iterations": an.set_iterations,
            "excluded": an.excluded, "raise_iterations": an.raise_iterations, "set_attrs": sorted(an.set_attrs)}
