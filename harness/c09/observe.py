"""Observation machinery for C09: deep vars()-graph dumps (by labels, cycle-safe), module-state digest, the observer
calls of the property (str, get_sql with arbitrary kwargs, hash, ==, fields_(), tables_, find_ ...), a profiler that
records which pypika functions ran, and the history runner."""
import datetime
import enum
import hashlib
import json
import os
import re
import sys
import types
import uuid

from harness.c09 import build

_ADDR = re.compile(r" at 0x[0-9a-fA-F]+")
MODULE_STATE = "<module-state>"


def clsname(tp):
    m = tp.__module__ or ""
    if m == "pypika":
        m = "__init__"
    elif m.startswith("pypika."):
        m = m[len("pypika."):]
    else:
        return m + ":" + tp.__qualname__
    return m + "." + tp.__qualname__


def leaf_repr(o):
    if isinstance(o, enum.Enum):
        return "%s.%s" % (type(o).__name__, o.name)
    if isinstance(o, type):
        return "<class %s>" % clsname(o)
    if isinstance(o, (types.FunctionType, types.BuiltinFunctionType, types.MethodType)):
        return "<function %s>" % getattr(o, "__qualname__", "?")
    return _ADDR.sub("", repr(o))


_LEAF = (str, bytes, int, float, bool, type(None), complex, enum.Enum, datetime.date, datetime.time, datetime.timedelta,
         uuid.UUID, type, types.FunctionType, types.BuiltinFunctionType, types.MethodType, re.Pattern, range, slice)


class Labeler:
    """stable labels for heap objects across the dumps of one case (label 0 is the module state)"""

    def __init__(self):
        self.labels = {}
        self.keep = []

    def label(self, o):
        k = id(o)
        if k not in self.labels:
            self.labels[k] = len(self.labels) + 1
            self.keep.append(o)
        return self.labels[k]


def _safe_key(o):
    try:
        return (type(o).__name__, str(o))
    except Exception:
        return (type(o).__name__, "")


def dump(roots, lab):
    """-> {label: {"cls": .., "fields": [[name, value]...]}}; value = ["a", repr] | ["r", label] | ["l", [..]] |
    ["t", [..]] | ["s", [..]] | ["d", [[k, v]..]]"""
    nodes = {}
    todo = []

    def val(o, depth=0):
        if isinstance(o, _LEAF):
            return ["a", leaf_repr(o)]
        if depth > 40:
            return ["a", "<deep>"]
        if isinstance(o, list):
            return ["l", [val(x, depth + 1) for x in o]]
        if isinstance(o, tuple):
            return ["t", [val(x, depth + 1) for x in o]]
        if isinstance(o, (set, frozenset)):
            return ["s", [val(x, depth + 1) for x in sorted(o, key=_safe_key)]]
        if isinstance(o, dict):
            return ["d", [[val(k, depth + 1), val(v, depth + 1)] for k, v in o.items()]]
        if hasattr(o, "__dict__") and not isinstance(o, types.ModuleType):
            l = lab.label(o)
            if l not in nodes:
                nodes[l] = None
                todo.append((l, o))
            return ["r", l]
        return ["a", leaf_repr(o)]

    top = val(list(roots))
    while todo:
        l, o = todo.pop(0)
        nodes[l] = {"cls": clsname(type(o)), "fields": [[k, val(v)] for k, v in list(vars(o).items())]}
    return {"top": top, "nodes": nodes}


def diff_dumps(before, after):
    """-> list of {"label", "cls", "attr", "new"} for every changed / added / deleted field of an object present before"""
    out = []
    for l, nb in before["nodes"].items():
        na = after["nodes"].get(l)
        if na is None:
            continue
        fb, fa = dict((k, v) for k, v in nb["fields"]), dict((k, v) for k, v in na["fields"])
        if nb["cls"] != na["cls"]:
            out.append({"label": l, "cls": nb["cls"], "attr": "__class__", "new": ["a", na["cls"]]})
        for k in fa:
            if k not in fb or fb[k] != fa[k]:
                out.append({"label": l, "cls": nb["cls"], "attr": k, "new": fa[k]})
        for k in fb:
            if k not in fa:
                out.append({"label": l, "cls": nb["cls"], "attr": k, "new": ["a", "<deleted>"]})
    return out


# ---- module state (class attributes, parameter defaults) -----------------------------------------
def module_state():
    st = {}
    lab = Labeler()
    for mname, mod in sorted(sys.modules.items()):
        if not (mname == "pypika" or mname.startswith("pypika.")) or ".tests" in mname or mod is None:
            continue
        for cname, c in sorted(vars(mod).items()):
            if isinstance(c, type) and (c.__module__ or "").startswith("pypika"):
                for k, v in sorted(vars(c).items()):
                    if k.startswith("__") and k.endswith("__"):
                        continue
                    f = v.__func__ if isinstance(v, (staticmethod, classmethod)) else (v.fget if isinstance(v, property) else v)
                    if isinstance(f, types.FunctionType):
                        d = (f.__defaults__, f.__kwdefaults__)
                        if d != (None, None):
                            st["%s.%s.__defaults__" % (clsname(c), k)] = json.dumps(dump([d], lab)["top"], sort_keys=True, default=str)
                        if len(vars(f)) > 0:
                            st["%s.%s.__dict__" % (clsname(c), k)] = json.dumps(dump([vars(f)], lab)["top"], sort_keys=True, default=str)
                    elif not callable(v) or isinstance(v, type):
                        d = dump([v], lab)
                        st["%s.%s" % (clsname(c), k)] = json.dumps([d["top"], sorted((str(a), json.dumps(b_, sort_keys=True, default=str)) for a, b_ in d["nodes"].items())], sort_keys=True, default=str)
            elif isinstance(c, types.FunctionType) and (c.__module__ or "").startswith("pypika"):
                d = (c.__defaults__, c.__kwdefaults__)
                if d != (None, None):
                    st["%s.%s.__defaults__" % (mname, cname)] = json.dumps(dump([d], lab)["top"], sort_keys=True, default=str)
            elif isinstance(c, (list, dict, set)) and not cname.startswith("__"):
                st["%s.%s" % (mname, cname)] = json.dumps(dump([c], lab)["top"], sort_keys=True, default=str)
    return st


def state_digest(st):
    return hashlib.sha1(json.dumps(st, sort_keys=True).encode()).hexdigest()[:16]


# ---- profiler -------------------------------------------------------------------------------------
class Executed:
    def __init__(self):
        import pypika
        self.root = os.path.realpath(os.path.dirname(pypika.__file__)) + os.sep
        self.names = set()
        self._cache = {}

    def _prof(self, frame, event, arg):
        if event != "call":
            return
        code = frame.f_code
        n = self._cache.get(code)
        if n is None:
            fn = code.co_filename
            rp = os.path.realpath(fn) if fn and not fn.startswith("<") else fn
            if rp.startswith(self.root):
                mod = rp[len(self.root):-3].replace(os.sep, ".")
                q = code.co_qualname.split(".<locals>")[0]
                n = mod + "." + q
            else:
                n = ""
            self._cache[code] = n
        if n:
            self.names.add(n)

    def __enter__(self):
        sys.setprofile(self._prof)
        return self

    def __exit__(self, *a):
        sys.setprofile(None)


# ---- observations -----------------------------------------------------------------------------------
def renderables(d, lab):
    """objects of the dumped graph that have a get_sql, in label order"""
    by_label = {lab.labels[id(o)]: o for o in lab.keep}
    return [by_label[l] for l in sorted(d["nodes"]) if l in by_label and hasattr(type(by_label[l]), "get_sql")]


def _kwargs(spec):
    import pypika
    from pypika import terms
    kw = {}
    collectors = []
    for k, v in spec.items():
        if isinstance(v, list) and v and v[0] == "dialect":
            v = getattr(pypika.Dialects, v[1])
        elif isinstance(v, list) and v and v[0] == "collector":
            v = getattr(terms, v[1])()
            collectors.append(v)
        kw[k] = v
    return kw, collectors


def _digest_result(r):
    if isinstance(r, bool) or r is None or isinstance(r, (int, float, str)):
        return repr(r)
    try:
        return "%s:%s" % (type(r).__name__, str(r))
    except Exception as e:
        return "%s:!%s" % (type(r).__name__, type(e).__name__)


def _clean(r):
    """memory addresses of default reprs (objects without __str__/__repr__) are not renderings"""
    if isinstance(r, str):
        return _ADDR.sub("", r)
    if isinstance(r, list):
        return [_clean(x) for x in r]
    return r


def observe(target, objs, twin_of, step):
    return _clean(_observe(target, objs, twin_of, step))


def _observe(target, objs, twin_of, step):
    """one observer call -> JSON-able result digest (exceptions are results: '!Name')"""
    kind = step[0]
    try:
        if kind == "str":
            return ["text", _ADDR.sub("", str(target))]
        if kind == "repr":
            return ["repr", _ADDR.sub("", repr(target))]
        if kind == "sql":
            kw, coll = _kwargs(step[1])
            t = target.get_sql(**kw)
            return ["text", _ADDR.sub("", t)] + [_ADDR.sub("", repr(c.get_parameters())) for c in coll]
        if kind == "hash":
            if type(target).__hash__ is object.__hash__:
                return ["hash-id"]        # identity hash of a class that defines no __hash__: not a rendering
            return ["hash", hash(target)]
        if kind in ("eq", "ne"):
            w = step[1]
            other = target if w == "self" else (twin_of if w == "twin" else (objs[1 + w[1] % max(1, len(objs) - 1)] if len(objs) > 1 else None))
            r = (target == other) if kind == "eq" else (target != other)
            return ["cmp", _digest_result(r)]
        if kind in ("fields", "tables", "find", "nodes", "agg", "tname"):
            attr = {"fields": "fields_", "tables": "tables_", "find": "find_", "nodes": "nodes_", "agg": "is_aggregate",
                    "tname": "get_table_name"}[kind]
            if not any(attr in vars(k) for k in type(target).__mro__):
                return ["n/a"]       # Selectable.__getattr__ would turn the name into a column: not an observer call
        if kind == "fields":
            return ["set", sorted(_digest_result(x) for x in target.fields_())]
        if kind == "tables":
            return ["set", sorted(_digest_result(x) for x in target.tables_)]
        if kind == "find":
            import pypika
            from pypika import terms, queries
            tp = getattr(terms, step[1], None) or getattr(queries, step[1])
            return ["list", [type(x).__name__ for x in target.find_(tp)]]
        if kind == "nodes":
            return ["list", [type(x).__name__ for x in target.nodes_()]]
        if kind == "agg":
            return ["val", repr(target.is_aggregate)]
        if kind == "tname":
            return ["val", repr(target.get_table_name())]
        raise ValueError("unknown observation %r" % (kind,))
    except ValueError:
        raise
    except RecursionError:
        return ["exc", "!RecursionError"]
    except Exception as e:
        return ["exc", "!" + type(e).__name__]


def mask(results):
    """process-independent part of a list of results (hash values differ between processes by design)"""
    return [["hash"] if r[0] == "hash" else r for r in results]


def pick(step, objs, d, lab):
    """the object an observation is applied to: ["root"] or ["sub", k]"""
    tgt = step[0]
    if tgt[0] == "root":
        return objs[0]
    rs = renderables(d, lab)
    return rs[tgt[1] % len(rs)] if rs else objs[0]


def run_history(objs, hist, twin_objs=None, track=True):
    """apply the history once; -> dict(results, diffs, executed, labels...)"""
    lab = Labeler()
    d0 = dump(objs, lab)
    results, diffs, locs = [], [], []
    ex = Executed()
    cur = d0
    for i, step in enumerate(hist):
        target = pick(step, objs, cur, lab)
        locs.append(lab.label(target))
        twin_of = twin_objs[0] if twin_objs else None
        if track:
            with ex:
                r = observe(target, objs, twin_of, step[1])
            after = dump(objs, lab)
            for df in diff_dumps(cur, after):
                df["step"] = i
                df["obs"] = step[1][0]
                diffs.append(df)
            cur = after
        else:
            r = observe(target, objs, twin_of, step[1])
        results.append(r)
    return {"results": results, "diffs": diffs, "locs": locs, "world": d0, "executed": sorted(ex.names), "lab": lab}


def run_case(case, with_world=True):
    """the full in-process experiment for one case"""
    out = {}
    try:
        objs, _ = build.build_case(case)
        twin, _ = build.build_case(case)
    except RecursionError:
        return {"build_exc": "RecursionError"}
    except Exception as e:
        return {"build_exc": type(e).__name__ + ": " + str(e)[:200]}
    hist = case["hist"]
    ms0 = module_state()
    r1 = run_history(objs, hist, twin)
    ms1 = module_state()
    r2 = run_history(objs, hist, twin, track=False)        # the same observations again, on the same objects
    objs3, _ = build.build_case(case)                        # a third, untouched construction
    r3 = run_history(twin, hist, objs3, track=False)        # ... and on the freshly rebuilt twin
    out["results"] = r1["results"]
    out["repeat"] = r2["results"]
    out["twin"] = r3["results"]
    out["locs"] = r1["locs"]
    out["diffs"] = r1["diffs"]
    out["executed"] = r1["executed"]
    out["module_state"] = [state_digest(ms0), state_digest(ms1)]
    out["module_diff"] = sorted(k for k in set(ms0) | set(ms1) if ms0.get(k) != ms1.get(k))
    if with_world:
        out["world"] = r1["world"]["nodes"]
    out["root_cls"] = clsname(type(objs[0]))
    return out


def run_plain(case):
    """what a sub-process computes: build, observe once, mask hashes"""
    try:
        objs, _ = build.build_case(case)
        twin, _ = build.build_case(case)
    except RecursionError:
        return {"build_exc": "RecursionError"}
    except Exception as e:
        return {"build_exc": type(e).__name__ + ": " + str(e)[:200]}
    r = run_history(objs, case["hist"], twin, track=False)
    return {"results": mask(r["results"])}
