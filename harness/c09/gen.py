"""Random construction scripts + observation histories for C09 (all randomness from the rng passed in)."""
from harness.c09.build import QUERY_CLASSES

NAMES = ["abc", "efg", "hij", "t1", "Orders", "we ird"]
COLS = ["id", "a", "b", "c", "foo", "bar", "ts", "na me", 'q"t']
STRS = ["x", "it's", 'say "hi"', "a%b", "", "müller", "back`tick", "1"]
ALIASES = [None, None, None, "al", "x y", "n"]
DIALECTS = ["MYSQL", "POSTGRESQL", "ORACLE", "MSSQL", "VERTICA", "REDSHIFT", "SNOWFLAKE", "CLICKHOUSE", "SQLLITE"]
COLLECTORS = ["QmarkParameter", "NumericParameter", "FormatParameter", "NamedParameter", "PyformatParameter",
              "ListParameter", "DictParameter"]
QUOTES = ['"', "`", "'", None, "", "[", '"']
FIND = ["Field", "Table", "Function", "Term", "Criterion", "ValueWrapper", "Case", "Star", "Node", "QueryBuilder"]


def rtable(rng, i):
    name = NAMES[i % len(NAMES)] if rng.random() < 0.8 else rng.choice(NAMES)
    schema = rng.choice([None, None, None, "sch", ["db", "sch"], ["schema", "s1", None]])
    alias = rng.choice([None, None, None, "x%d" % i, "al"])
    qc = rng.choice([None, None, None, "MySQLQuery", "PostgreSQLQuery"])
    return ["table", name, schema, alias, qc]


def rconst(rng):
    r = rng.random()
    if r < 0.35:
        return rng.choice([0, 1, -1, 2, 42, 10 ** 12])
    if r < 0.65:
        return rng.choice(STRS)
    if r < 0.72:
        return rng.choice([1.5, -0.25, 1e20])
    if r < 0.80:
        return rng.choice([True, False])
    if r < 0.86:
        return None
    if r < 0.93:
        return ["date", rng.choice(["2020-01-02", "1999-12-31"])]
    return ["uuid", "12345678123456781234567812345678"]


def rfield(rng, nt):
    t = ["t", rng.randrange(nt)] if nt and rng.random() < 0.85 else None
    return ["f", rng.choice(COLS), t, rng.choice(ALIASES)]


def rterm(rng, d, nt, agg_ok=True):
    r = rng.random()
    if d <= 0 or r < 0.28:
        return rfield(rng, nt)
    if r < 0.36:
        return ["v", rconst(rng), rng.choice(ALIASES)]
    if r < 0.48:
        return ["arith", rng.choice(["+", "-", "*", "/", "<<", ">>"]), rterm(rng, d - 1, nt, agg_ok),
                rterm(rng, d - 1, nt, agg_ok) if rng.random() < 0.6 else rng.choice([1, 2, 7]), rng.choice(ALIASES)]
    if r < 0.52:
        return rng.choice([["neg", rterm(rng, d - 1, nt, agg_ok)], ["pow", rfield(rng, nt), 2], ["mod", rfield(rng, nt), 3],
                           ["rarith", rng.choice(["+", "-", "*", "/"]), 3, rfield(rng, nt)]])
    if r < 0.60:
        return ["fn", rng.choice(["COALESCE", "my_fn", "NOW", "GREATEST"]), [rterm(rng, d - 1, nt, agg_ok) for _ in range(rng.randrange(3))],
                rng.choice(ALIASES), rng.choice([None, None, ["schema", "fs", None]])]
    if r < 0.68 and agg_ok:
        opts = {}
        if rng.random() < 0.4:
            opts["alias"] = rng.choice(["n", "tot"])
        cls = rng.choice(["Count", "Sum", "Avg", "Min", "Max", "Std", "First", "Last", "ApproximatePercentile"])
        if cls in ("Count", "Sum") and rng.random() < 0.4:
            opts["distinct"] = True
        if rng.random() < 0.3:
            opts["filter"] = [rcrit(rng, 1, nt) for _ in range(rng.choice([1, 2]))]
        arg = "*" if cls == "Count" and rng.random() < 0.4 else rfield(rng, nt)
        return ["agg", cls, [arg], opts]
    if r < 0.75:
        k = rng.random()
        if k < 0.2:
            return ["fnc", "Cast", [rfield(rng, nt), rng.choice(["VARCHAR", ["sqltype", "VARCHAR", 24], ["sqltype", "INTEGER"]])], rng.choice(ALIASES)]
        if k < 0.3:
            return ["fnc", "Extract", [["datepart", rng.choice(["year", "day"])], rfield(rng, nt)], rng.choice(ALIASES)]
        if k < 0.4:
            return ["fnc", rng.choice(["Now", "CurTimestamp", "CurDate", "UtcTimestamp"]), [], rng.choice(ALIASES)]
        if k < 0.6:
            return ["fnc", rng.choice(["Upper", "Lower", "Length", "Trim", "Reverse", "Sqrt", "Floor", "Abs"]), [rterm(rng, d - 1, nt, False)], rng.choice(ALIASES)]
        if k < 0.8:
            return ["fnc", rng.choice(["Coalesce", "Concat", "NullIf", "IfNull"]), [rterm(rng, d - 1, nt, False), rng.choice([0, "x", rfield(rng, nt)])], rng.choice(ALIASES)]
        return ["fnc", "Substring", [rfield(rng, nt), 1, 3], None]
    if r < 0.81:
        return ["case", [[rcrit(rng, d - 1, nt), rterm(rng, d - 1, nt, agg_ok)] for _ in range(rng.choice([1, 1, 2, 3]))],
                rterm(rng, d - 1, nt, agg_ok) if rng.random() < 0.6 else None, rng.choice(ALIASES)]
    if r < 0.87:
        opts = {}
        cls = rng.choice(["Rank", "DenseRank", "RowNumber", "NTile", "FirstValue", "LastValue", "Sum", "Avg", "Count", "Lag", "Median"])
        args = [] if cls in ("Rank", "DenseRank", "RowNumber") else ([4] if cls == "NTile" else [rfield(rng, nt)])
        if rng.random() < 0.8:
            opts["over"] = [rfield(rng, nt) for _ in range(rng.choice([0, 1, 2]))]
        if rng.random() < 0.6:
            opts["orderby"] = [[rfield(rng, nt), rng.choice([None, "asc", "desc"])] for _ in range(rng.choice([1, 2]))]
        if cls in ("FirstValue", "LastValue", "Sum", "Avg", "Count") and rng.random() < 0.5:
            opts["frame"] = [rng.choice(["rows", "range"]), rng.choice([["prec", None], ["prec", 0], ["prec", 3], "CURRENT_ROW"]),
                             rng.choice([None, ["foll", None], ["foll", 2], "CURRENT_ROW"])]
        if cls in ("FirstValue", "LastValue") and rng.random() < 0.4:
            opts["ignore_nulls"] = True
        if rng.random() < 0.2:
            opts["filter"] = [rcrit(rng, 1, nt)]
        if rng.random() < 0.3:
            opts["alias"] = "w"
        return ["an", cls, args, opts]
    if r < 0.90:
        return ["interval", rng.choice([{"days": 3}, {"years": 1, "months": 2}, {"hours": 1, "minutes": 30, "seconds": 5}, {"weeks": 2},
                                        {"quarters": 1}, {"microseconds": 7}, {"days": -1, "hours": 4}]), rng.choice([None, None] + DIALECTS[:5])]
    if r < 0.93:
        return rng.choice([["tuple", [rterm(rng, d - 1, nt, agg_ok), rconst(rng)]], ["array", [rconst(rng), rconst(rng)]], ["array", []],
                           ["bracket", rterm(rng, d - 1, nt, agg_ok)], ["json", ["pydict", [["k", "v"], ["n", ["pylist", [1, "two"]]]]]],
                           ["lit", "CURRENT_USER", rng.choice(ALIASES)], ["null"], ["pseudo", "ROWNUM"], ["systime"]])
    if r < 0.96:
        return rng.choice([["param", "QmarkParameter"], ["param", "NumericParameter"], ["param", "NamedParameter", "pn"], ["param", "Parameter", ":1"],
                           ["param", "PyformatParameter", "pf"], ["pvw", ["param", "NamedParameter", "v1"], rconst(rng)],
                           ["pvw", ["param", "QmarkParameter"], 5, "pa"]])
    return rng.choice([["attz", rng.choice(COLS), "US/Eastern", False, rng.choice(ALIASES)], ["attz", rfield(rng, nt), "-06:00", True],
                       ["values", rng.choice(COLS)], ["all", rfield(rng, nt)], ["star", ["t", rng.randrange(nt)] if nt else None],
                       ["jsonop", rng.choice(["get_json_value", "get_text_value", "has_key", "contains", "get_path_text_value"]), rfield(rng, nt), "k"]])


def rcrit(rng, d, nt, subs=0):
    r = rng.random()
    if d <= 0 or r < 0.35:
        return ["cmp", rng.choice(["==", "!=", "<", "<=", ">", ">="]), rfield(rng, nt),
                rterm(rng, 0, nt) if rng.random() < 0.4 else rconst(rng)]
    if r < 0.55:
        return [rng.choice(["and", "or", "xor"]), rcrit(rng, d - 1, nt, subs), rcrit(rng, d - 1, nt, subs)]
    if r < 0.63:
        return [rng.choice(["not", "negate"]), rcrit(rng, d - 1, nt, subs)]
    if r < 0.70:
        return [rng.choice(["isnull", "notnull"]), rterm(rng, d - 1, nt)]
    if r < 0.76:
        return ["between", rfield(rng, nt), rng.choice([1, "a", ["date", "2020-01-02"]]), rng.choice([9, "z"])]
    if r < 0.86:
        if subs and rng.random() < 0.4:
            return [rng.choice(["isin", "notin"]), rfield(rng, nt), ["s", rng.randrange(subs)]]
        vals = [rconst(rng) for _ in range(rng.choice([0, 1, 3]))]
        return [rng.choice(["isin", "notin"]), rfield(rng, nt), [rng.choice(["pylist", "pytuple"]), vals]]
    if r < 0.91:
        return ["match", rng.choice(["like", "not_like", "ilike", "regex", "rlike", "glob", "regexp", "as_of"]), rfield(rng, nt), rng.choice(STRS)]
    if r < 0.94:
        return ["bitand", rfield(rng, nt), 4]
    if r < 0.97 and subs:
        return ["exists", ["s", rng.randrange(subs)], rng.random() < 0.4]
    return ["cmp", "==", rterm(rng, d - 1, nt), rterm(rng, d - 1, nt)]


def rselect_query(rng, nt, subs, depth=2, qcls=None, simple=False):
    qcls = qcls or rng.choice(QUERY_CLASSES)
    opts = {}
    if rng.random() < 0.08:
        opts["immutable"] = False
    if rng.random() < 0.08 and qcls != "ClickHouseQuery":
        opts["as_keyword"] = True
    steps = []
    used = [0]
    src = ["t", 0]
    if subs and rng.random() < 0.25 and not simple:
        src = ["s", rng.randrange(subs)]
    steps.append(["from_", [src]])
    if nt > 1 and rng.random() < 0.2 and not simple:
        steps.append(["from_", [["t", 1]]])
        used.append(1)
    if nt > 1 and rng.random() < 0.5 and 1 not in used and not simple:
        k = rng.random()
        how = rng.choice(["inner", "left", "right", "outer", "left_outer", "full_outer", "cross", "hash"])
        if k < 0.7:
            steps.append(["join_on", [["t", 1], ["cmp", "==", ["f", "id", ["t", 0]], ["f", rng.choice(["id", "fk"]), ["t", 1]]]],
                          dict({"how": how}, **({"collate": "utf8_bin"} if rng.random() < 0.15 else {}))])
        elif k < 0.85:
            steps.append(["join_using", [["t", 1], "id", "a"], {"how": how}])
        else:
            steps.append(["join_cross", [["t", 1]]])
        used.append(1)
        if nt > 2 and rng.random() < 0.3:
            steps.append(["join_on", [["t", 2], ["cmp", "==", ["f", "id", ["t", 1]], ["f", "id", ["t", 2]]]], {"how": "left"}])
            used.append(2)
    if subs and rng.random() < 0.2 and not simple:
        k = rng.randrange(subs)
        steps.append(["join_on", [["s", k], ["cmp", "==", ["f", "id", ["t", 0]], ["f", "id", ["s", k]]]]])

    def tf(rng_):
        return rng_.choice(used)

    def fld():
        return ["f", rng.choice(COLS), ["t", tf(rng)], rng.choice(ALIASES)]
    n = len(used)
    sel = []
    for _ in range(rng.choice([1, 1, 2, 3, 4])):
        k = rng.random()
        if k < 0.35:
            sel.append(rng.choice(COLS) if rng.random() < 0.5 else fld())
        elif k < 0.42:
            sel.append("*" if rng.random() < 0.5 else ["star", ["t", tf(rng)]])
        elif k < 0.5:
            sel.append(rconst(rng) if rng.random() < 0.5 else ["v", rconst(rng), "c"])
        else:
            sel.append(_retab(rterm(rng, depth, max(used) + 1), used, rng))
    steps.append(["select", sel])
    if rng.random() < 0.1:
        steps.append(["distinct"])
    if rng.random() < 0.6:
        steps.append(["where", [_retab(rcrit(rng, depth, max(used) + 1, subs), used, rng)]])
    if rng.random() < 0.15:
        steps.append(["where", [_retab(rcrit(rng, 1, max(used) + 1, subs), used, rng)]])
    if rng.random() < 0.08 and nt > 2 and 2 not in used:
        steps.append(["where", [["cmp", "==", ["f", "zz", ["t", 2]], 1]]])       # foreign table -> _foreign_table
    if rng.random() < 0.3:
        g = [rng.choice(COLS) if rng.random() < 0.4 else fld() for _ in range(rng.choice([1, 2]))]
        steps.append(["groupby", g])
        if rng.random() < 0.25:
            steps.append(["rollup", [fld()], {"vendor": "mysql"}] if rng.random() < 0.5 else ["rollup", [fld(), fld()]])
        if rng.random() < 0.4:
            steps.append(["having", [["cmp", ">", ["agg", "Count", ["*"], {}], rng.choice([1, 5])]]])
        if qcls == "ClickHouseQuery" and rng.random() < 0.3:
            steps.append(["with_totals"])
    if rng.random() < 0.35:
        steps.append(["orderby", [rng.choice(COLS) if rng.random() < 0.4 else fld() for _ in range(rng.choice([1, 2]))],
                      {"order": rng.choice(["asc", "desc"])} if rng.random() < 0.6 else {}])
    if rng.random() < 0.3:
        steps.append(["limit", [rng.choice([0, 1, 10])]])
    if rng.random() < 0.2:
        steps.append(["offset", [rng.choice([0, 5])]])
    if rng.random() < 0.05:
        steps.append(["slice", [2, 7]])
    # dialect specific
    if qcls in ("MySQLQuery", "PostgreSQLQuery") and rng.random() < 0.45:
        kw = {}
        if rng.random() < 0.8:
            pool = NAMES + ["zeta", "alpha", "mid_dle", "T9"]
            kw["of"] = [rng.choice(pool) for _ in range(rng.choice([1, 2, 3, 4, 5]))]
        if rng.random() < 0.3:
            kw[rng.choice(["nowait", "skip_locked"])] = True
        steps.append(["for_update", [], kw])
    elif rng.random() < 0.05:
        steps.append(["for_update"])
    if qcls == "MySQLQuery":
        if rng.random() < 0.2:
            steps.append(["modifier", [rng.choice(["SQL_CALC_FOUND_ROWS", "HIGH_PRIORITY"])]])
        if rng.random() < 0.15:
            steps.append([rng.choice(["force_index", "use_index"]), ["idx1", ["index", "idx2"]]])
    if qcls == "PostgreSQLQuery" and rng.random() < 0.25:
        steps.append(["distinct_on", [rng.choice(COLS), fld()]])
    if qcls == "MSSQLQuery" and rng.random() < 0.4:
        steps.append(["top", [rng.choice([0, 5, "10"])], {"percent": True} if rng.random() < 0.3 else ({"with_ties": True} if rng.random() < 0.3 else {})])
    if qcls == "VerticaQuery" and rng.random() < 0.4:
        steps.append(["hint", ["lbl"]])
    if qcls == "ClickHouseQuery":
        if rng.random() < 0.3:
            steps.append(["final"])
        if rng.random() < 0.3:
            steps.append(["sample", [10] + ([5] if rng.random() < 0.5 else [])])
        if rng.random() < 0.3:
            steps.append(["limit_by", [2, rng.choice(COLS), fld()]] if rng.random() < 0.5 else ["limit_offset_by", [2, 1, rng.choice(COLS)]])
        if rng.random() < 0.2:
            steps.append(["distinct_on", [rng.choice(COLS)]])
        if rng.random() < 0.2:
            steps.append(["prewhere", [["cmp", ">", ["f", "a", ["t", 0]], 1]]])
    if rng.random() < 0.1:
        steps.append(["as_", [rng.choice(["qa", "sub q"])]])
    return ["q", qcls, steps, opts]


def _retab(spec, used, rng):
    """restrict table references of a term spec to the tables that are part of the query"""
    if isinstance(spec, list):
        if len(spec) == 2 and spec[0] == "t" and isinstance(spec[1], int):
            return ["t", spec[1] if spec[1] in used else rng.choice(used)]
        return [_retab(x, used, rng) for x in spec]
    if isinstance(spec, dict):
        return {k: _retab(v, used, rng) for k, v in spec.items()}
    return spec


def rwrite_query(rng, nt, subs):
    qcls = rng.choice(QUERY_CLASSES)
    k = rng.random()
    steps = []
    if k < 0.45:      # INSERT / REPLACE
        steps.append(["into", [["t", 0]]])
        if rng.random() < 0.6:
            steps.append(["columns", [rng.choice(COLS), rng.choice(COLS)]])
        if subs and rng.random() < 0.2:
            steps += [["from_", [["t", 1 % nt]]], ["select", ["a", "b"]]]
        else:
            rows = [["pytuple", [rconst(rng), rconst(rng)]] for _ in range(rng.choice([1, 2, 3, 4]))]
            if rng.random() < 0.3:
                rows = [rconst(rng), ["fnc", "Now", []]]
            steps.append([rng.choice(["insert", "insert", "replace"]) if qcls != "SQLLiteQuery" or rng.random() < 0.6 else "insert_or_replace", rows])
        if rng.random() < 0.15:
            steps.append(["ignore"])
        if qcls == "MySQLQuery" and rng.random() < 0.5:
            if rng.random() < 0.7:
                steps.append(["on_duplicate_key_update", [rng.choice(COLS), rng.choice([1, ["values", "a"], "x"])]])
            else:
                steps.append(["on_duplicate_key_ignore"])
        if qcls == "PostgreSQLQuery" and rng.random() < 0.6:
            steps.append(["on_conflict", [rng.choice(COLS)] + ([["f", "b", ["t", 0]]] if rng.random() < 0.3 else [])])
            if rng.random() < 0.4:
                steps.append(["do_nothing"])
            else:
                steps.append(["do_update", [rng.choice(COLS)] + ([rconst(rng)] if rng.random() < 0.6 else [])])
                if rng.random() < 0.3:
                    steps.append(["where", [["cmp", ">", ["f", "a", ["t", 0]], 1]]])
            if rng.random() < 0.4:
                steps.append(["returning", [rng.choice(["id", "*"])]])
    elif k < 0.8:     # UPDATE
        steps.append(["update", [["t", 0]]])
        for _ in range(rng.choice([1, 2])):
            steps.append(["set", [rng.choice(COLS) if rng.random() < 0.5 else ["f", rng.choice(COLS), ["t", 0]], rconst(rng) if rng.random() < 0.6 else ["arith", "+", ["f", "a", ["t", 0]], 1]]])
        if nt > 1 and rng.random() < 0.25:
            steps.append(["join_on", [["t", 1], ["cmp", "==", ["f", "id", ["t", 0]], ["f", "id", ["t", 1]]]]])
        if nt > 1 and qcls == "PostgreSQLQuery" and rng.random() < 0.3:
            steps.append(["from_", [["t", 1]]])
        if rng.random() < 0.7:
            steps.append(["where", [rcrit(rng, 1, 1, 0)]])
        if rng.random() < 0.15:
            steps.append(["limit", [3]])
        if qcls == "PostgreSQLQuery" and rng.random() < 0.4:
            steps.append(["returning", [rng.choice(["id", "*", ["f", "a", ["t", 0]]])]])
        if subs and rng.random() < 0.2:
            steps.insert(0, ["with_", [["s", 0], "cte"]])
    else:             # DELETE
        steps += [["from_", [["t", 0]]], ["delete"]]
        if rng.random() < 0.7:
            steps.append(["where", [rcrit(rng, 1, 1, subs)]])
        if qcls == "PostgreSQLQuery" and nt > 1 and rng.random() < 0.3:
            steps.append(["using", [["t", 1]]])
        if qcls == "PostgreSQLQuery" and rng.random() < 0.3:
            steps.append(["returning", ["id"]])
    return ["q", qcls, steps, {}]


def rddl(rng, nt):
    k = rng.random()
    if k < 0.55:
        qcls = rng.choice(["Query", "MySQLQuery", "PostgreSQLQuery", "VerticaQuery", "SnowflakeQuery", "MSSQLQuery"])
        steps = [["create_table", [rng.choice([["t", 0], "newt"])]]]
        if rng.random() < 0.3:
            steps.append(["temporary"])
        if rng.random() < 0.15:
            steps.append(["unlogged"])
        if rng.random() < 0.3:
            steps.append(["if_not_exists"])
        if rng.random() < 0.15:
            steps.append(["as_select", [rselect_query(rng, nt, 0, 1, simple=True)]])
        else:
            cols = [rng.choice(["c%d" % i, ["pytuple", ["c%d" % i, "INT"]], ["column", "c%d" % i, "VARCHAR(10)", rng.choice([None, True, False]),
                                                                            rng.choice([None, ["v", 0], ["fnc", "Now", []]])]]) for i in range(rng.choice([1, 2, 3]))]
            steps.append(["columns", cols])
            if rng.random() < 0.3:
                steps.append(["period_for", ["p", "c0", ["column", "c1"]]])
            if rng.random() < 0.3:
                steps.append(["with_system_versioning"])
            if rng.random() < 0.4:
                steps.append(["unique", ["c0"] + (["c1"] if rng.random() < 0.5 else [])])
            if rng.random() < 0.4:
                steps.append(["primary_key", ["c0"]])
            if rng.random() < 0.3:
                steps.append(["foreign_key", [["pylist", ["c0"]], rng.choice([["t", 0], "other"]), ["pylist", ["id"]]],
                              {"on_delete": "cascade", "on_update": "set_null"} if rng.random() < 0.5 else {}])
        if qcls == "VerticaQuery" and ["temporary"] in steps:
            if rng.random() < 0.5:
                steps.append(["local"])
            if rng.random() < 0.5:
                steps.append(["preserve_rows"])
        return ["create", qcls, steps]
    if k < 0.7:
        steps = [["columns", ["c0", "c1"]], ["on", [rng.choice([["t", 0], "tbl"])]]]
        if rng.random() < 0.4:
            steps.append(["unique"])
        if rng.random() < 0.4:
            steps.append(["if_not_exists"])
        if rng.random() < 0.4:
            steps.append(["where", [["cmp", ">", ["f", "c0"], 1]]])
        return ["cindex", rng.choice(["ix", ["index", "ix2"]]), steps]
    if k < 0.9:
        qcls = rng.choice(["Query", "MySQLQuery", "SnowflakeQuery", "ClickHouseQuery"])
        kind = rng.choice(["table", "database", "user", "view", "index"] + (["dictionary", "quota"] if qcls == "ClickHouseQuery" else []))
        target = {"table": rng.choice([["t", 0], "tt"]), "database": rng.choice(["db", ["database", "db2"]])}.get(kind, "nm")
        if qcls != "Query" and kind not in ("table",) and qcls != "ClickHouseQuery":
            qcls = "Query"
        steps = [["if_exists"]] if rng.random() < 0.5 else []
        if qcls == "ClickHouseQuery" and rng.random() < 0.5:
            steps.append(["on_cluster", ["cl"]])
        return ["drop", qcls, kind, target, steps]
    return rng.choice([["load", "/tmp/f.csv", ["t", 0]], ["vcopy", "/tmp/f.csv", "tbl"]])


def rmisc(rng, nt, subs):
    k = rng.random()
    if k < 0.25:
        return rtable(rng, rng.randrange(3))
    if k < 0.33:
        return ["table_for", ["table", "abc", None, None], ["cmp", "==", ["systime"], ["v", "2020-01-01"]]] if rng.random() < 0.5 else \
               ["table_portion", ["table", "abc", None, "a1"], ["fromto", ["systime"], ["v", "2020-01-01"], ["v", "2021-01-01"]]]
    if k < 0.40:
        return rng.choice([["schema", "s", None], ["schema", "s", ["schema", "p", None]], ["database", "d"], ["aliased", "cte", None],
                           ["column", "c", "INT", False, ["v", 1]], ["periodfor", "p", "a", "b"], ["index", "ix"]] +
                          ([["aliased", "cte", ["s", 0]]] if subs else []))
    if k < 0.55:
        return rng.choice([
            ["ch", "ToString", [rfield(rng, nt)], "s"], ["ch", "ToFixedString", [rfield(rng, nt), 3]], ["ch", "ToInt64", [rfield(rng, nt)]],
            ["ch", "If", [rcrit(rng, 0, nt), 1, 2]], ["ch", "MultiIf", [rcrit(rng, 0, nt), 1, rcrit(rng, 0, nt), 2, 3]],
            ["ch", "HasAny", [["charray", ["pylist", [1, 2]]], ["charray", ["pylist", ["a", "b"]], "ToFixedString", None]]],
            ["ch", "HasAny", [["f", "tags"], ["charray", ["pylist", [1]]]], "ha"],
            ["ch", "NotEmpty", [["charray", ["pylist", [1, 2]]]]], ["ch", "Length", [["f", "arr"]]],
            ["ch", "Match", [rfield(rng, nt), "ab+"]], ["ch", "NotLike", [rfield(rng, nt), "%x"]],
            ["ch", "MultiSearchAny", [rfield(rng, nt), ["pylist", ["a", "b"]]]], ["charray", ["pylist", [1, 2, 3]], None, "ar"]])
    if k < 0.80:
        return rterm(rng, 3, nt)
    return rcrit(rng, 3, nt, subs)


def rkwargs(rng):
    kw = {}
    if rng.random() < 0.5:
        kw["quote_char"] = rng.choice(QUOTES)
    if rng.random() < 0.25:
        kw["secondary_quote_char"] = rng.choice(["'", '"', "", None])
    if rng.random() < 0.2:
        kw["alias_quote_char"] = rng.choice(QUOTES)
    if rng.random() < 0.1:
        kw["query_alias_quote_char"] = rng.choice(QUOTES)
    for flag in ("with_alias", "with_namespace", "subquery", "as_keyword", "groupby_alias", "orderby_alias", "subcriterion"):
        if rng.random() < 0.22:
            kw[flag] = rng.random() < 0.6
    if rng.random() < 0.3:
        kw["dialect"] = ["dialect", rng.choice(DIALECTS)]
    if rng.random() < 0.22:
        kw["parameter"] = ["collector", rng.choice(COLLECTORS)]
    if rng.random() < 0.04:
        kw["unknown_option"] = 1
    return kw


def rhist(rng, n_others, tier):
    steps = []
    n = rng.choice([2, 3, 4, 5, 6, 8] if tier == "quick" else [3, 5, 8, 12])
    for _ in range(n):
        tgt = ["root"] if rng.random() < 0.65 else ["sub", rng.randrange(64)]
        r = rng.random()
        if r < 0.22:
            o = ["str"]
        elif r < 0.55:
            o = ["sql", rkwargs(rng)]
        elif r < 0.65:
            o = ["hash"]
        elif r < 0.75:
            o = [rng.choice(["eq", "eq", "ne"]), rng.choice(["self", "twin"] + ([["other", rng.randrange(n_others)]] if n_others else []))]
        elif r < 0.81:
            o = ["fields"]
        elif r < 0.87:
            o = ["tables"]
        elif r < 0.92:
            o = ["find", rng.choice(FIND)]
        elif r < 0.95:
            o = ["nodes"]
        elif r < 0.97:
            o = ["agg"]
        elif r < 0.985:
            o = ["tname"]
        else:
            o = ["repr"]
        steps.append([tgt, o])
    if rng.random() < 0.5:
        steps.append([["root"], ["str"]])
    return steps


def gen_case(rng, tier="quick", kind=None):
    nt = rng.choice([1, 2, 2, 3, 3])
    case = {"tables": [rtable(rng, i) for i in range(nt)], "subs": []}
    if rng.random() < 0.35:
        for _ in range(rng.choice([1, 1, 2])):
            sq = rselect_query(rng, nt, len(case["subs"]), 1, simple=rng.random() < 0.5)
            if rng.random() < 0.25:
                sq = _same_width_setop(rng, None, nt)
            case["subs"].append(sq)
    ns = len(case["subs"])
    kind = kind or rng.choice(["select"] * 9 + ["write"] * 3 + ["setop"] * 2 + ["ddl"] * 2 + ["misc"] * 4)
    if kind == "select":
        case["obj"] = rselect_query(rng, nt, ns)
    elif kind == "write":
        case["obj"] = rwrite_query(rng, nt, ns)
    elif kind == "setop":
        case["obj"] = _same_width_setop(rng, None, nt)
    elif kind == "ddl":
        case["obj"] = rddl(rng, nt)
    else:
        case["obj"] = rmisc(rng, nt, ns)
    if kind == "select" and case["obj"][0] == "q" and rng.random() < 0.15:
        # joins on WITH queries: the references are validated when the statement is rendered (with_() may come later,
        # or never: then every rendering raises JoinException)
        steps = case["obj"][2]
        pos = 1
        while pos < len(steps) and steps[pos][0].startswith(("from_", "join")):
            pos += 1
        for name in rng.sample(["w1", "w2", "cte"], rng.choice([1, 1, 2])):
            case["tables"].append(["aliased", name, None])
            k = len(case["tables"]) - 1
            if rng.random() < 0.5:
                steps.insert(pos, ["join_on", [["t", k], ["cmp", "==", ["f", "id", ["t", 0]], ["f", "id", ["t", k]]]]])
            else:   # referenced from a criterion only
                steps.append(["where", [["cmp", "==", ["f", "id", ["t", 0]], ["f", "id", ["t", k]]]]])
                if len(case["tables"]) > 2 and isinstance(case["tables"][1], list) and case["tables"][1][0] == "table" \
                        and not any(st[0].startswith("join") for st in steps):
                    steps.insert(pos, ["join_on", [["t", 1], ["and", ["cmp", "==", ["f", "id", ["t", 0]], ["f", "id", ["t", 1]]],
                                                                     ["cmp", "==", ["f", "a", ["t", 1]], ["f", "a", ["t", k]]]]]])
            if rng.random() < 0.6:
                steps.append(["with_", [["q", "Query", [["from_", [["t", 0]]], ["select", ["id", "a"]]], {}], name]])
    if kind == "select" and case["obj"][0] == "q" and rng.random() < 0.3:
        share_terms(rng, case)
    case["others"] = []
    if rng.random() < 0.5:
        case["others"].append(rng.choice([rfield(rng, nt), ["t", 0], rtable(rng, 0), 3, "abc", None, rselect_query(rng, nt, 0, 1, simple=True)]))
    case["hist"] = rhist(rng, len(case["others"]), tier)
    case["kind"] = kind
    return case


def _same_width_setop(rng, base, nt):
    qcls = rng.choice(QUERY_CLASSES)
    w = rng.choice([1, 2])

    def one():
        t = rng.randrange(nt)
        steps = [["from_", [["t", t]]], ["select", [rng.choice(COLS) for _ in range(w)]]]
        if rng.random() < 0.4:
            steps.append(["where", [["cmp", ">", ["f", "a", ["t", t]], rng.choice([1, "x"])]]])
        return ["q", qcls, steps, {}]
    ops = [[rng.choice(["union", "union_all", "intersect", "except_of", "minus"]), one()] for _ in range(rng.choice([1, 1, 2, 3]))]
    ob = [[rng.choice([rng.choice(COLS), ["f", "a", ["t", 0]]]), rng.choice([None, "asc", "desc"])]] if rng.random() < 0.4 else []
    return ["setop", one(), ops, ob, rng.choice([None, None, 5, 0]), rng.choice([None, None, 2])]


def share_terms(rng, case):
    """one term OBJECT in several places of a statement (select list + FILTER, WHERE + select list, GROUP BY + ORDER BY ...):
    what a rendering does to it in one place is seen by the next rendering in the other"""
    steps = case["obj"][2]
    f = lambda: ["f", rng.choice(COLS), ["t", 0], None]     # noqa: E731
    pool = []
    crit = rng.choice([["isin", f(), ["pylist", [1, 2]]], ["between", f(), 1, 9], ["isnull", f()], ["cmp", ">", f(), 3],
                       ["not", ["cmp", "==", f(), "x"]], ["and", ["cmp", ">", f(), 1], ["cmp", "<", f(), 9]], ["bitand", f(), 4]])
    pool.append(["as", crit, rng.choice(["is_small", "flag", "c 1"])] if rng.random() < 0.75 else crit)
    pool.append(rng.choice([["f", rng.choice(COLS), ["t", 0], rng.choice(ALIASES)], ["fn", "LOWER", [f()], "lw"],
                            ["arith", "+", f(), 1, "plus"], ["case", [[["cmp", ">", f(), 1], ["v", "big"]]], ["v", "small"], "sz"],
                            ["agg", "Sum", [f()], {"alias": "s"}]]))
    case["terms"] = pool
    X0, X1 = ["x", 0], ["x", 1]
    nf = rng.choice([1, 1, 1, 2])
    agg = ["agg", rng.choice(["Count", "Sum", "Max"]), ["*" if rng.random() < 0.3 else f()],
           {"filter": [X0] + ([["cmp", "<", f(), 100]] if nf == 2 else []), "alias": rng.choice([None, "n"])}]
    if agg[1] != "Count" and agg[2] == ["*"]:
        agg[2] = [f()]
    extra = []
    r = rng.random()
    if r < 0.5:
        extra.append(["select", [X0, agg]])
    elif r < 0.7:
        extra += [["select", [agg]], ["where", [X0]]]
    else:
        extra += [["select", [X0, X1]], ["where", [X0]]]
    if rng.random() < 0.5:
        extra.append(["select", [X1]])
    if rng.random() < 0.3:
        extra.append(["groupby", [X1]])
    if rng.random() < 0.3:
        extra.append(["orderby", [X1 if rng.random() < 0.6 else X0]])
    if rng.random() < 0.2:
        extra.append(["having", [X0]])
    if rng.random() < 0.25:
        extra.append(["select", [["an", "Sum", [f()], {"over": [X1], "orderby": [[X1, None]], "filter": [X0]}]]])
    pos = next((i for i, st in enumerate(steps) if st[0] == "select"), len(steps) - 1) + 1
    steps[pos:pos] = extra
