"""Construction scripts for C09: JSON specs -> pypika objects (the same script is run in the checking process, for
the freshly rebuilt twin, and in sub-processes under other PYTHONHASHSEEDs)."""
import datetime
import operator
import uuid


class Env:
    def __init__(self):
        self.tables = []
        self.subs = []
        self.terms = []


def _mods():
    import pypika
    from pypika import analytics, dialects, enums, functions, queries, terms
    from pypika.clickhouse import array as ch_array, condition as ch_cond, search_string as ch_ss, type_conversion as ch_tc
    return dict(pypika=pypika, analytics=analytics, dialects=dialects, enums=enums, functions=functions,
                queries=queries, terms=terms, ch_array=ch_array, ch_cond=ch_cond, ch_ss=ch_ss, ch_tc=ch_tc)


QUERY_CLASSES = ["Query", "MySQLQuery", "PostgreSQLQuery", "OracleQuery", "MSSQLQuery", "VerticaQuery", "RedshiftQuery",
                 "SnowflakeQuery", "ClickHouseQuery", "SQLLiteQuery"]
ARITH = {"+": operator.add, "-": operator.sub, "*": operator.mul, "/": operator.truediv, "<<": operator.lshift,
         ">>": operator.rshift}
CMP = {"==": operator.eq, "!=": operator.ne, "<": operator.lt, "<=": operator.le, ">": operator.gt, ">=": operator.ge}


def const(v):
    """raw Python constants: JSON scalars, ["date", iso], ["uuid", hex], ["pyset", [...]], ["pylist", [...]], ["pytuple", [...]]"""
    if isinstance(v, list):
        if v and v[0] == "date":
            return datetime.date.fromisoformat(v[1])
        if v and v[0] == "uuid":
            return uuid.UUID(v[1])
        if v and v[0] == "pyset":
            return set(const(x) for x in v[1])
        if v and v[0] == "pylist":
            return [const(x) for x in v[1]]
        if v and v[0] == "pytuple":
            return tuple(const(x) for x in v[1])
        if v and v[0] == "pydict":
            return {k: const(x) for k, x in v[1]}
        raise ValueError("const %r" % (v,))
    return v


def qclass(name):
    import pypika
    from pypika import dialects
    return getattr(pypika, name, None) or getattr(dialects, name)


def is_spec(x):
    return isinstance(x, list) and x and isinstance(x[0], str) and x[0] not in ("date", "uuid", "pyset", "pylist", "pytuple", "pydict")


def b(spec, env):
    """spec -> object (a pypika object, or a raw constant)"""
    if not is_spec(spec):
        return const(spec)
    M = _mods()
    T, Q, D, F, A = M["terms"], M["queries"], M["dialects"], M["functions"], M["analytics"]
    tag = spec[0]
    a = spec[1:]
    if tag == "t":
        return env.tables[a[0]]
    if tag == "s":
        return env.subs[a[0]]
    if tag == "x":                      # a term object shared between several places of the statement
        return env.terms[a[0]]
    if tag == "table":
        name, schema, alias = a[0], a[1], a[2]
        if isinstance(schema, list) and schema and schema[0] in ("schema", "database") and len(schema) == 3:
            schema = b(schema, env)
        elif isinstance(schema, list):
            schema = tuple(schema)
        qc = qclass(a[3]) if len(a) > 3 and a[3] else None
        return Q.Table(name, schema=schema, alias=alias, query_cls=qc)
    if tag == "table_for":
        return b(a[0], env).for_(b(a[1], env))
    if tag == "table_portion":
        return b(a[0], env).for_portion(b(a[1], env))
    if tag == "schema":
        return Q.Schema(a[0], parent=b(a[1], env) if a[1] else None)
    if tag == "database":
        return Q.Database(a[0])
    if tag == "aliased":
        return Q.AliasedQuery(a[0], b(a[1], env) if a[1] else None)
    if tag == "f":
        return T.Field(a[0], alias=a[2] if len(a) > 2 else None, table=b(a[1], env) if len(a) > 1 and a[1] is not None else None)
    if tag == "star":
        return T.Star(b(a[0], env) if a and a[0] is not None else None)
    if tag == "v":
        return T.ValueWrapper(const(a[0]), a[1] if len(a) > 1 else None)
    if tag == "lit":
        return T.LiteralValue(a[0], a[1] if len(a) > 1 else None)
    if tag == "null":
        return T.NullValue()
    if tag == "systime":
        return T.SystemTimeValue()
    if tag == "pseudo":
        return T.PseudoColumn(a[0])
    if tag == "param":
        cls = getattr(T, a[0])
        return cls(*a[1:]) if len(a) > 1 else (cls() if a[0] != "Parameter" else cls("?"))
    if tag == "pvw":
        return T.ParameterValueWrapper(b(a[0], env), const(a[1]), a[2] if len(a) > 2 else None)
    if tag == "arith":
        r = ARITH[a[0]](b(a[1], env), b(a[2], env))
        return r.as_(a[3]) if len(a) > 3 and a[3] else r
    if tag == "rarith":   # constant on the left
        return ARITH[a[0]](const(a[1]), b(a[2], env))
    if tag == "neg":
        return -b(a[0], env)
    if tag == "pow":
        return b(a[0], env) ** a[1]
    if tag == "mod":
        return b(a[0], env) % a[1]
    if tag == "cmp":
        return CMP[a[0]](b(a[1], env), b(a[2], env))
    if tag == "match":
        return getattr(b(a[1], env), a[0])(a[2])
    if tag in ("and", "or", "xor"):
        x, y = b(a[0], env), b(a[1], env)
        return x & y if tag == "and" else (x | y if tag == "or" else x ^ y)
    if tag == "not":
        return ~b(a[0], env)
    if tag == "negate":
        return b(a[0], env).negate()
    if tag == "empty":
        return T.EmptyCriterion()
    if tag == "isnull":
        return b(a[0], env).isnull()
    if tag == "notnull":
        return b(a[0], env).isnotnull()
    if tag == "between":
        return b(a[0], env).between(b(a[1], env), b(a[2], env))
    if tag == "fromto":
        return b(a[0], env).from_to(b(a[1], env), b(a[2], env))
    if tag == "isin":
        return b(a[0], env).isin(b(a[1], env))
    if tag == "notin":
        return b(a[0], env).notin(b(a[1], env))
    if tag == "bitand":
        return b(a[0], env).bitwiseand(a[1])
    if tag == "case":
        c = T.Case(alias=a[2] if len(a) > 2 else None)
        for cond, then in a[0]:
            c = c.when(b(cond, env), b(then, env))
        if a[1] is not None:
            c = c.else_(b(a[1], env))
        return c
    if tag == "fn":
        kw = {}
        if len(a) > 2 and a[2]:
            kw["alias"] = a[2]
        if len(a) > 3 and a[3]:
            kw["schema"] = b(a[3], env)
        return T.Function(a[0], *[b(x, env) for x in a[1]], **kw)
    if tag == "custom":
        return T.CustomFunction(a[0], a[1])(*[b(x, env) for x in a[2]])
    if tag == "agg":
        opts = a[2] if len(a) > 2 else {}
        cls = getattr(F, a[0])
        args = [b(x, env) for x in a[1]]
        r = cls(*args, alias=opts.get("alias")) if a[0] != "ApproximatePercentile" else cls(args[0], opts.get("percentile", 0.5), alias=opts.get("alias"))
        if opts.get("distinct"):
            r = r.distinct()
        if "filter" in opts:
            r = r.filter(*[b(x, env) for x in opts["filter"]])
        return r
    if tag == "fnc":
        cls = getattr(F, a[0])
        args = []
        for x in a[1]:
            if isinstance(x, list) and x and x[0] == "sqltype":
                st = getattr(M["enums"].SqlTypes, x[1])
                args.append(st(x[2]) if len(x) > 2 else st)
            elif isinstance(x, list) and x and x[0] == "datepart":
                args.append(getattr(M["enums"].DatePart, x[1]))
            else:
                args.append(b(x, env))
        kw = {"alias": a[2]} if len(a) > 2 and a[2] else {}
        return cls(*args, **kw)
    if tag == "an":
        opts = a[2] if len(a) > 2 else {}
        cls = getattr(A, a[0])
        kw = {"alias": opts["alias"]} if opts.get("alias") else {}
        r = cls(*[b(x, env) for x in a[1]], **kw)
        if "over" in opts:
            r = r.over(*[b(x, env) for x in opts["over"]])
        for t, order in opts.get("orderby", []):
            r = r.orderby(b(t, env), **({"order": getattr(M["enums"].Order, order)} if order else {}))
        if "frame" in opts:
            kind, lo, hi = opts["frame"]

            def bound(x):
                if x is None:
                    return None
                if x == "CURRENT_ROW":
                    return A.CURRENT_ROW
                return (A.Preceding if x[0] == "prec" else A.Following)(x[1])
            r = getattr(r, kind)(bound(lo), bound(hi)) if hi is not None else getattr(r, kind)(bound(lo))
        if opts.get("ignore_nulls"):
            r = r.ignore_nulls()
        if "filter" in opts:
            r = r.filter(*[b(x, env) for x in opts["filter"]])
        return r
    if tag == "interval":
        kw = dict(a[0])
        if len(a) > 1 and a[1]:
            kw["dialect"] = getattr(M["enums"].Dialects, a[1])
        return T.Interval(**kw)
    if tag == "json":
        return T.JSON(const(a[0]), a[1] if len(a) > 1 else None)
    if tag == "jsonop":
        return getattr(b(a[1], env), a[0])(const(a[2]))
    if tag == "tuple":
        return T.Tuple(*[b(x, env) for x in a[0]])
    if tag == "array":
        return T.Array(*[b(x, env) for x in a[0]])
    if tag == "bracket":
        return T.Bracket(b(a[0], env))
    if tag == "exists":
        r = T.ExistsCriterion(b(a[0], env))
        return r.negate() if len(a) > 1 and a[1] else r
    if tag == "all":
        return T.All(b(a[0], env))
    if tag == "values":
        return T.Values(a[0])
    if tag == "index":
        return T.Index(a[0])
    if tag == "attz":
        return T.AtTimezone(b(a[0], env), a[1], interval=a[2], alias=a[3] if len(a) > 3 else None)
    if tag == "as":
        return b(a[0], env).as_(a[1])
    if tag == "ch":
        for m in ("ch_tc", "ch_cond", "ch_ss", "ch_array"):
            if hasattr(M[m], a[0]):
                cls = getattr(M[m], a[0])
                break
        kw = {"alias": a[2]} if len(a) > 2 and a[2] else {}
        return cls(*[b(x, env) for x in a[1]], **kw)
    if tag == "charray":
        conv = getattr(M["ch_tc"], a[1]) if len(a) > 1 and a[1] else None
        return M["ch_array"].Array(const(a[0]), conv, alias=a[2] if len(a) > 2 else None)
    if tag == "column":
        return Q.Column(a[0], a[1] if len(a) > 1 else None, a[2] if len(a) > 2 else None,
                        b(a[3], env) if len(a) > 3 and a[3] is not None else None)
    if tag == "periodfor":
        return Q.PeriodFor(a[0], a[1], a[2])
    if tag == "q":
        return build_query(a[0], a[1], a[2] if len(a) > 2 else {}, env)
    if tag == "setop":
        r = None
        base = b(a[0], env)
        for op, other in a[1]:
            r = getattr(base if r is None else r, op)(b(other, env))
        for fld, order in (a[2] if len(a) > 2 else []):
            r = r.orderby(b(fld, env), **({"order": getattr(M["enums"].Order, order)} if order else {}))
        if len(a) > 3 and a[3] is not None:
            r = r.limit(a[3])
        if len(a) > 4 and a[4] is not None:
            r = r.offset(a[4])
        return r
    if tag == "create":
        return build_create(a[0], a[1], env)
    if tag == "cindex":
        q = Q.Query.create_index(b(a[0], env) if is_spec(a[0]) else a[0])
        for st in a[1]:
            q = _step(q, st, env)
        return q
    if tag == "drop":
        qc = qclass(a[0])
        q = getattr(qc, "drop_" + a[1])(b(a[2], env) if is_spec(a[2]) else a[2])
        for st in (a[3] if len(a) > 3 else []):
            q = _step(q, st, env)
        return q
    if tag == "load":
        return D.MySQLQuery.load(a[0]).into(b(a[1], env) if is_spec(a[1]) else a[1])
    if tag == "vcopy":
        return D.VerticaQuery.from_file(a[0]).copy_(b(a[1], env) if is_spec(a[1]) else a[1])
    raise ValueError("unknown spec tag %r" % tag)


def _arg(x, env):
    return b(x, env) if is_spec(x) else const(x)


def _step(q, st, env):
    """generic builder step: [method, [args], {kwargs}]; args that are specs are built"""
    import pypika
    name = st[0]
    args = [_arg(x, env) for x in (st[1] if len(st) > 1 else [])]
    kw = {}
    for k, v in (st[2] if len(st) > 2 else {}).items():
        if k == "order" and isinstance(v, str):
            v = getattr(pypika.Order, v)
        elif k == "how" and isinstance(v, str):
            v = getattr(pypika.JoinType, v)
        elif k in ("on_delete", "on_update") and isinstance(v, str):
            v = getattr(pypika.enums.ReferenceOption, v)
        elif k == "of" and isinstance(v, list):
            v = tuple(v)
        else:
            v = _arg(v, env)
        kw[k] = v
    if name == "join_on":       # [join_on, [item, criterion], {how}]
        return q.join(args[0], **({"how": kw["how"]} if "how" in kw else {})).on(args[1], **({"collate": kw["collate"]} if "collate" in kw else {}))
    if name == "join_using":
        return q.join(args[0], **({"how": kw["how"]} if "how" in kw else {})).using(*args[1:])
    if name == "join_on_field":
        return q.join(args[0], **({"how": kw["how"]} if "how" in kw else {})).on_field(*args[1:])
    if name == "join_cross":
        return q.join(args[0]).cross()
    if name == "slice":
        return q[args[0]:args[1]]
    return getattr(q, name)(*args, **kw)


def build_query(qcls, steps, opts, env):
    import pypika
    qc = qclass(qcls)
    q = None
    for i, st in enumerate(steps):
        if i == 0:
            name = st[0]
            args = [_arg(x, env) for x in (st[1] if len(st) > 1 else [])]
            q = getattr(qc, name)(*args, **dict(opts))
        else:
            q = _step(q, st, env)
    return q


def build_create(qcls, steps, env):
    qc = qclass(qcls)
    q = None
    for i, st in enumerate(steps):
        if i == 0:
            q = qc.create_table(_arg(st[1][0], env))
        else:
            q = _step(q, st, env)
    return q


def build_case(case):
    """-> (objs, env): objs[0] is the observed object, objs[1:] the operands of == / !="""
    env = Env()
    for t in case.get("tables", []):
        env.tables.append(b(t, env))
    for s in case.get("subs", []):
        env.subs.append(b(s, env))
    for t in case.get("terms", []):
        env.terms.append(b(t, env))
    objs = [b(case["obj"], env)]
    for o in case.get("others", []):
        objs.append(b(o, env))
    return objs, env
