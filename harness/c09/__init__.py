"""Helper modules of the C09 check (rendering purity / repeatability / process independence)."""
