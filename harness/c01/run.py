"""Execute a C01 history step by step on real pypika objects and record, per step, (a) the model step with the
resolution of the table's effect list, (b) the observed changes/sharing for the correspondence check, (c) the rendering
snapshots for the oracle."""
import inspect

from harness.c01 import world
from harness.c01.world import Universe, qual, build_arg, render, alias_of, underlying, is_diff, PRIMS

_MISSING = object()


def table_index(table):
    return {rec["cls"]: {"recopy": rec["recopy"] or [], "methods": {m["name"]: m for m in rec["methods"]}} for rec in table}


class Runner:
    def __init__(self, tab):
        self.tab = tab
        self.U = Universe()
        self.records = []
        self.requested_mutable = set()      # objects constructed with immutable=False (what the user asked for)

    # ------------------------------------------------------------------------------------------
    def live(self, visible_only=False):
        U = self.U
        return [i for i, o in enumerate(U.objs) if o is not None and (U.visible[i] or not visible_only)]

    def snapshot(self, extra=()):
        """rendering + alias of every visible live object (and of the inline argument objects of this call)"""
        U = self.U
        snap = {}
        for i in self.live(True):
            snap[i] = (render(U.objs[i]), alias_of(U.objs[i]))
        for k, o in enumerate(extra):
            snap["arg%d" % k] = (render(o), alias_of(o))
        return snap

    def _delta(self, n0, recv, copies, raised, extra_base=None):
        U = self.U
        out = []
        newprev = {}
        for i, o in enumerate(U.objs):
            if o is None:
                continue
            if raised and i >= n0:
                continue
            cur = U.dump_obj(o)
            if i < n0:
                base = U.prev.get(i)
            elif copies and i == n0 and recv is not None:
                base = U.prev.get(recv)
            elif extra_base and i in extra_base:
                base = U.prev.get(extra_base[i])        # the copy made by a delegated @builder call
            else:
                base = None
            for a in sorted(cur):
                if is_diff(base, a, cur[a]):
                    out.append([i, a, cur[a][1], cur[a][0], cur[a][2]])
            newprev[i] = cur
            U.prev_vals[i] = dict(vars(o))
        U.prev.update(newprev)          # baselines are the dumps from BEFORE the call for every object
        return out

    def _untabled(self, st, ro, recv, mname, aspecs, kspecs):
        """a chaining call that has no row in the class table of this run (e.g. a method that lost its @builder): there is
        no model step, but the call is still made under the oracle's eyes - the result is not tracked"""
        U = self.U
        if ">" in mname or mname.startswith("_") or not callable(getattr(type(ro), mname, None)):
            return {"kind": "skip", "why": "%s.%s not in the class table" % (qual(ro), mname)}
        try:
            args = [build_arg(x, U) for x in aspecs]
            kwargs = {k: build_arg(x, U) for k, x in kspecs.items()}
        except Exception as e:  # noqa
            return {"kind": "skip", "why": "argument construction: %s" % type(e).__name__}
        before = self.snapshot()
        exc = None
        try:
            getattr(ro, mname)(*args, **kwargs)
        except Exception as e:  # noqa
            exc = type(e).__name__
        after = self.snapshot()
        changes = []
        for key, (r0, a0) in before.items():
            r1, a1 = after.get(key, (None, None))
            role = "receiver" if key == recv else "other"
            if a0 != a1:
                changes.append({"obj": key, "cls": type(U.objs[key]).__name__, "role": role, "what": "alias", "akind": "alias",
                                "before": repr(a0), "after": repr(a1)})
            elif r0 != r1:
                changes.append({"obj": key, "cls": type(U.objs[key]).__name__, "role": role, "what": "sql", "before": r0, "after": r1})
        return {"kind": "untabled", "recv": recv, "m": mname, "qualname": "%s.%s" % (type(ro).__name__, mname), "exc": exc,
                "changes": changes}

    def _dead_after_exception(self, copies, rk):
        """the model allocates the copy (and a wrapper for RNew methods) even when the call raises: dead placeholders"""
        if copies:
            self.U.track(None)
        if rk[0] == "new":
            self.U.track(None)

    # ------------------------------------------------------------------------------------------
    def step(self, st):
        rec = self._step(st)
        self.records.append(rec)
        return rec

    def _step(self, st):
        U = self.U
        n0 = len(U.objs)
        if st[0] == "new":
            try:
                o = world.factory(st[1])
            except Exception as e:  # noqa
                return {"kind": "skip", "why": "factory %s: %s" % (st[1], type(e).__name__)}
            i = U.track(o)
            delta = self._delta(n0, None, False, False)
            d = U.prev[i]
            _, entry, opts = world.parse_kind(st[1])
            if opts.get("immutable") is False:
                self.requested_mutable.add(i)
            return {"kind": "new", "cls": qual(o), "idx": i, "attrs": [[a, d[a][0], d[a][2]] for a in sorted(d)],
                    "delta": delta, "changes": [], "exc": None, "entry": entry or "_builder", "requested": opts,
                    "observed": {k: repr(vars(o).get(k, "<missing>")) for k in opts}, "factory": st[1],
                    "pyclass": type(o).__name__}
        recv, mname, aspecs, kspecs = st[1], st[2], st[3], st[4]
        aspecs2, kspecs2 = (st[5], st[6]) if len(st) > 5 else ([], {})
        if not (0 <= recv < len(U.objs)) or U.objs[recv] is None:
            return {"kind": "skip", "why": "receiver %r not live" % recv}
        ro = U.objs[recv]
        U.visible[recv] = True          # whoever calls a method on it holds it (e.g. a Joiner's .query taken by the user)
        row = self.tab.get(qual(ro))
        m = row["methods"].get(mname) if row else None
        if m is None:
            return self._untabled(st, ro, recv, mname, aspecs, kspecs)
        comp = m.get("composite")
        try:
            args = [build_arg(s, U) for s in aspecs]
            kwargs = {k: build_arg(s, U) for k, s in kspecs.items()}
            args2 = [build_arg(s, U) for s in aspecs2]
            kwargs2 = {k: build_arg(s, U) for k, s in kspecs2.items()}
        except Exception as e:  # noqa
            return {"kind": "skip", "why": "argument construction: %s" % type(e).__name__}
        m1 = comp[0] if comp else mname
        bound1 = getattr(ro, m1, None)
        if bound1 is None:
            return {"kind": "skip", "why": "no attribute " + m1}
        func = underlying(bound1)
        qualname = getattr(func, "__qualname__", m1)
        func2 = None
        if comp:
            import importlib
            wmod, wname = comp[1].split(".")
            wcls = getattr(importlib.import_module("pypika." + wmod), wname)
            func2 = underlying(getattr(wcls, comp[2]))
            qualname += ">" + getattr(func2, "__qualname__", comp[2])

            def bound(*a, **k):
                return getattr(bound1(*a, **k), comp[2])(*args2, **kwargs2)
        else:
            bound = bound1
        # parameter name -> values
        named = []
        for fn_, a_, k_ in ((func, args, kwargs), (func2, args2, kwargs2)):
            if fn_ is None:
                continue
            try:
                sig = inspect.signature(fn_)
                ba = sig.bind(ro, *a_, **k_)
                for pname, val in list(ba.arguments.items())[1:]:
                    kind = sig.parameters[pname].kind
                    vals = list(val) if kind == inspect.Parameter.VAR_POSITIONAL else (
                        list(val.values()) if kind == inspect.Parameter.VAR_KEYWORD else [val])
                    for v in vals:
                        named.append((pname, v))
                        if isinstance(v, (list, tuple)):
                            for x in v:
                                named.append((pname, x))
            except TypeError:
                pass
        # arguments become visible live objects; inline (untracked) argument objects are snapshotted too
        arg_idx, inline = [], []
        for pname, v in named:
            if not isinstance(v, PRIMS) and id(v) in U.idx:
                U.visible[U.idx[id(v)]] = True
                arg_idx.append((pname, U.idx[id(v)]))
            elif hasattr(v, "get_sql"):
                inline.append(v)
        copies = bool(m["copies"] and getattr(ro, "immutable", True))
        # for the oracle: the receiver was constructed with immutable=False (whether or not the option reached it)
        mutable_recv = bool(m["copies"] and (recv in self.requested_mutable or not getattr(ro, "immutable", True)))
        before = self.snapshot(inline)
        # circumstances of the one documented alias write into a Table: "the FROM table joined again un-aliased".  The row
        # sources of the statement the call works on, identified by name + schema + temporal clause (not by pypika's ==)
        from pypika.queries import QueryBuilder as _QB, Joiner as _J
        rq = ro if isinstance(ro, _QB) else (ro.query if isinstance(ro, _J) else None)
        base_keys = set()
        if isinstance(rq, _QB):
            for t_ in list(getattr(rq, "_from", [])) + [getattr(rq, "_update_table", None)]:
                k_ = table_key(t_)
                if k_ is not None:
                    base_keys.add(k_)
        exc, res, exc_rejection = None, None, False
        try:
            res = bound(*args, **kwargs)
        except Exception as e:  # noqa
            exc = type(e).__name__
            exc_rejection = is_rejection(e)
        after_pre = None
        # ---- register new objects in the model's allocation order: the copy first, then a wrapper ----
        body, ret, wrap = None, 0, []
        rk = m["ret"]
        # a row  return self.<a>.<m2>(...)  (Joiner.on -> self.query._with_join(join)): the delegated @builder call
        d_target, d_row, d_copies, d_body, d_base = None, None, False, None, {}
        if rk[0] == "call":
            d_target = getattr(ro, rk[1], None)
            d_cls = self.tab.get(qual(d_target)) if d_target is not None else None
            d_row = d_cls["methods"].get(rk[2]) if d_cls else None
            if d_row is None:
                return {"kind": "skip", "why": "delegated method %s not in the class table" % rk[2]}
            U.track(d_target, visible=False)
            d_copies = bool(d_row["copies"] and getattr(d_target, "immutable", True))
        if exc is not None:
            if rk[0] == "call":
                if copies:
                    U.track(None)
                if d_copies:
                    U.track(None)
                else:
                    d_body = d_target       # the delegated call ran in place: what it did before raising it did to that object
                if not copies:
                    body = ro
            else:
                self._dead_after_exception(copies, rk)
                if not copies:
                    body = ro
        elif rk[0] == "call":
            body = ro if not copies else None
            if d_copies:
                d_body = res
                ret = U.track(res)
                d_base[ret] = U.idx[id(d_target)]
            else:
                d_body = d_target
                ret = U.track(res)
        else:
            if rk[0] == "self":
                if copies:
                    body = res
                    ret = U.track(res)
                else:
                    body = ro
                    ret = U.track(res)
            elif rk[0] == "new":
                hidden = [a for a, src in rk[2] if src == "self"]
                if copies and hidden and hasattr(res, hidden[0]):
                    body = getattr(res, hidden[0])
                    U.track(body, visible=False)
                elif not copies:
                    body = ro
                ret = U.track(res)
            elif rk[0] == "via":
                body = ro
                ret = U.track(res)
        # ---- resolve the effect list ----
        chs = []

        def resolve(effs, body, copies, base_recv, recopy):
          out_chs = []

          def target_obj(tg):
              if tg == "self":
                  return body
              k, _, rest = tg.partition(":")
              if k == "via":
                  return getattr(body, rest, None) if body is not None else None
              if k == "arg":
                  for pn, ix in arg_idx:
                      if pn == rest:
                          return U.objs[ix]
                  return None
              if k == "argvia":
                  p, _, a = rest.partition(":")
                  for pn, ix in arg_idx:
                      if pn == p:
                          return getattr(U.objs[ix], a, None)
              return None

          def base_dump(tobj, tg):
              """dump of the object the target's attributes are compared against"""
              if tobj is None or isinstance(tobj, PRIMS) or id(tobj) not in U.idx:
                  return None, None
              ti = U.idx[id(tobj)]
              if ti < n0:
                  return U.prev.get(ti), U.prev_vals.get(ti)
              if tg == "self" and copies:
                  return U.prev.get(base_recv), U.prev_vals.get(base_recv)
              return None, None

          for k_, (tg, kind, attr) in enumerate(effs):
              tobj = target_obj(tg)
              if tobj is None or isinstance(tobj, PRIMS) or id(tobj) not in U.idx:
                  out_chs.append([False, False, []])
                  continue
              val = vars(tobj).get(attr, _MISSING) if hasattr(tobj, "__dict__") else _MISSING
              if val is _MISSING:
                  out_chs.append([False, False, []])
                  continue
              cur = U.dump_value(val)
              bd, bv = base_dump(tobj, tg)
              if kind in ("rebind", "rebind_unset"):
                  fired = is_diff(bd, attr, cur) if not cur[0] else (bd is None or attr not in bd or not bd[attr][0] or bd[attr][1] != cur[1])
                  out_chs.append([bool(fired), cur[0], cur[2]])
              else:
                  later = any(t2 == tg and a2 == attr and k2 in ("rebind", "rebind_unset") for (t2, k2, a2) in effs[k_ + 1:])
                  if later and bv is not None and attr in bv and (bd is None or attr not in bd or bd[attr][1] != cur[1]):
                      # the in-place write hit the container that was there before a later rebinding
                      ti = U.idx[id(tobj)]
                      if tg == "self" and copies and attr in recopy:
                          out_chs.append([False, False, []])      # it hit the private copy made by __copy__, now garbage
                      else:
                          old = U.dump_value(bv[attr])
                          out_chs.append([True, old[0], old[2]])
                  else:
                      out_chs.append([True, cur[0], cur[2]])
          return out_chs

        chs = resolve(m["effects"], body, copies, recv, self.tab[qual(ro)]["recopy"])
        if rk[0] == "call":
            chs += resolve(d_row["effects"], d_body, d_copies and exc is None, U.idx[id(d_target)], self.tab[qual(d_target)]["recopy"])
        if exc is None and rk[0] == "new":
            d = U.dump_obj(res)
            wrap = [[a, d[a][0], d[a][2]] for a in sorted(d)]
        delta = self._delta(n0, recv, copies, exc is not None, d_base)
        # ---- oracle data: what the user can see change ----
        after = self.snapshot(inline)
        changes = []
        argset = {ix for _, ix in arg_idx}
        # the objects this call is ENTITLED to update in place: an immutable=False receiver, or the immutable=False query a
        # Joiner finishes on.  Any other immutable=False builder must stay as it is, like every other live object
        updated_ids = set()
        if m["copies"] and not getattr(ro, "immutable", True):
            updated_ids.add(id(ro))
        if d_target is not None and not d_copies:
            updated_ids.add(id(d_target))
        for key, (r0, a0) in before.items():
            r1, a1 = after.get(key, (None, None))
            if isinstance(key, int):
                role = "argument" if key in argset else ("receiver" if key == recv else (
                    "returned-object" if exc is None and key == ret else "other"))
                if role == "receiver" and mutable_recv:
                    continue
                if role != "argument" and updated_ids and reaches_mutable(U.objs[key], only=updated_ids):
                    continue        # documented immutable=False mode: whatever holds the one updated object follows it
                cls = type(U.objs[key]).__name__
            else:
                role = "argument"
                cls = type(inline[int(key[3:])]).__name__
            if a0 != a1:
                o_ = U.objs[key] if isinstance(key, int) else inline[int(key[3:])]
                if a0 is not None and a0[1] is not None:
                    akind = "alias-overwritten"         # the object already had a name
                elif table_key(o_) is not None and table_key(o_) not in base_keys:
                    akind = "alias-other-table"         # a Table that is not a row source of the statement worked on
                else:
                    akind = "alias"
                changes.append({"obj": key, "cls": cls, "role": role, "what": "alias", "akind": akind,
                                "before": repr(a0), "after": repr(a1)})
            elif r0 != r1:
                changes.append({"obj": key, "cls": cls, "role": role, "what": "sql", "before": r0, "after": r1})
        same_obj = (res is ro) if exc is None else None
        return {"kind": "call", "recv": recv, "recv_cls": qual(ro), "m": mname, "qualname": qualname,
                "exc": exc, "ret": ret, "copies": copies, "mutable_recv": mutable_recv, "same_obj": same_obj,
                "args": [[p, i] for p, i in arg_idx], "chs": chs, "wrap": wrap, "delta": delta, "changes": changes,
                "ret_cls": (qual(res) if exc is None and res is not None else None),
                "res_render": (render(res) if exc is None else "!" + exc), "rejection": exc_rejection}


REJECTIONS = ("QueryException", "JoinException", "SetOperationException", "RollupException", "CaseException",
              "FunctionException", "GroupingException", "DialectNotSupported")


def is_rejection(e):
    """the call was REJECTED by pypika (one of its own exception classes, or the AttributeError its once-only / wrong-kind
    guards raise: "'Query' object has no attribute ...") - as opposed to a crash on ill-typed input (IndexError, TypeError, ...)"""
    n = type(e).__name__
    if n in REJECTIONS:
        return True
    return n == "AttributeError" and str(e).startswith(("'Query' object", "'DropQuery' object"))


def table_key(t):
    """identity of a table as a row source: name, schema chain, temporal clause (None for anything that is not a Table)"""
    from pypika.queries import Table
    if not isinstance(t, Table):
        return None

    def txt(x):
        if x is None:
            return None
        try:
            return x.get_sql(quote_char='"')
        except Exception:  # noqa
            return repr(x)
    return (t._table_name, txt(getattr(t, "_schema", None)), txt(getattr(t, "_for", None)), txt(getattr(t, "_for_portion", None)))


def reaches_mutable(o, depth=5, seen=None, only=None):
    """does o (transitively, through attributes / lists / tuples) hold a builder created with immutable=False?
    only: a set of id()s - then: does it hold (or is it) one of THESE objects"""
    seen = seen if seen is not None else set()
    if id(o) in seen or depth < 0 or isinstance(o, PRIMS):
        return False
    seen.add(id(o))
    if isinstance(o, (list, tuple, set)):
        return any(reaches_mutable(x, depth - 1, seen, only) for x in o)
    if isinstance(o, dict):
        return any(reaches_mutable(x, depth - 1, seen, only) for x in o.values())
    d = getattr(o, "__dict__", None)
    if not isinstance(d, dict):
        return False
    if (id(o) in only) if only is not None else (d.get("immutable", True) is False):
        return True
    return any(reaches_mutable(x, depth - 1, seen, only) for x in d.values())


def run_history(case, tab):
    r = Runner(tab)
    for st in case["steps"]:
        r.step(st)
    return r
