"""Seeded generator of branching call histories for C01.  The generator runs the history on pypika while it builds it
(to know which objects are alive and of which class), all randomness comes from the rng passed in."""
from harness.c01.run import Runner
from harness.c01.world import qual

QUERY_KINDS = ["QueryBuilder", "MySQLQueryBuilder", "VerticaQueryBuilder", "OracleQueryBuilder", "PostgreSQLQueryBuilder",
               "RedShiftQueryBuilder", "MSSQLQueryBuilder", "ClickHouseQueryBuilder", "SQLLiteQueryBuilder",
               "SnowflakeQueryBuilder"]
THEMES = [("shared", 10), ("query", 26), ("setop", 7), ("create", 7), ("createindex", 3), ("drop", 3), ("loadcopy", 2), ("case", 6),
          ("function", 9), ("table", 4), ("terms", 6), ("joiner", 10), ("mixed", 8), ("twin", 5)]

NAMES = ["a", "b", "c", "x", "y", "id"]


def S(v):
    return {"k": "str", "v": v}


def I(v):
    return {"k": "int", "v": v}


def REF(i):
    return {"k": "ref", "i": i}


class Ctx:
    def __init__(self, rng, runner):
        self.rng, self.r = rng, runner
        self.exclude = set()

    def of(self, pred, visible_only=False):
        U = self.r.U
        from harness.c01.run import reaches_mutable
        return [i for i, o in enumerate(U.objs) if o is not None and i not in self.exclude and pred(o)
                and (U.visible[i] or not visible_only) and not (self.exclude and reaches_mutable(o))]

    def tables(self):
        from pypika import Table
        return self.of(lambda o: isinstance(o, Table))

    def queries(self):
        from pypika.queries import QueryBuilder
        return self.of(lambda o: isinstance(o, QueryBuilder))

    def selecting(self):
        from pypika.queries import QueryBuilder
        return self.of(lambda o: isinstance(o, QueryBuilder) and bool(o._selects))

    def setops(self):
        from pypika.queries import _SetOperation
        return self.of(lambda o: isinstance(o, _SetOperation))

    # ---- argument pieces ----
    def name(self):
        return self.rng.choice(NAMES)

    def lit(self):
        r = self.rng.random()
        if r < 0.5:
            return I(self.rng.choice([0, 1, 2, 7, 42, -3]))
        if r < 0.9:
            return S(self.rng.choice(["v", "it's", "x y", ""]))
        return {"k": "none"}

    def tbl(self, p_str=0.25):
        ts = self.tables()
        if ts and self.rng.random() > p_str:
            return REF(self.rng.choice(ts))
        return S(self.rng.choice(["t1", "t2", "t9"]))

    def tbl_ref(self):
        ts = self.tables()
        return REF(self.rng.choice(ts)) if ts else {"k": "table", "v": "t1"}

    def field(self):
        ts = self.tables()
        f = {"k": "field", "n": self.name()}
        if ts and self.rng.random() < 0.5:
            f["t"] = REF(self.rng.choice(ts))
        return f

    def crit(self):
        r = self.rng.random()
        if r < 0.08:
            return {"k": "empty"}
        c = {"k": "crit", "f": self.field(), "op": self.rng.choice(["eq", "ne", "gt", "lt", "like", "isnull", "isin"]),
             "v": I(self.rng.choice([1, 2, 3]))}
        if r > 0.85:
            return {"k": "and", "a": c, "b": {"k": "crit", "f": self.field(), "op": "eq", "v": self.lit()}}
        return c

    def subq(self):
        qs = self.selecting() or self.queries()
        if qs:
            return REF(self.rng.choice(qs))
        return S("t1")

    def selectable(self):
        r = self.rng.random()
        if r < 0.45:
            return self.tbl()
        if r < 0.9:
            return self.subq()
        so = self.setops()
        return REF(self.rng.choice(so)) if so else self.subq()

    def term(self):
        r = self.rng.random()
        if r < 0.3:
            return S(self.name())
        if r < 0.4:
            return S("*")
        if r < 0.65:
            return self.field()
        if r < 0.75:
            ts = self.tables()
            return {"k": "star", "t": REF(self.rng.choice(ts))} if ts else {"k": "star"}
        if r < 0.88:
            return {"k": "fn", "n": self.rng.choice(["Sum", "Count", "Max", "Lower"]), "a": self.field()}
        if r < 0.93:
            return {"k": "arith", "a": self.field(), "b": I(1)}
        if r < 0.96:
            qs = self.selecting()
            if qs:
                return REF(self.rng.choice(qs))       # a sub-query in the SELECT list
        return I(self.rng.choice([1, 5]))

    def some(self, f, lo=1, hi=3):
        return [f() for _ in range(self.rng.randint(lo, hi))]

    def order_kw(self):
        return {"order": {"k": "order", "v": self.rng.choice(["asc", "desc"])}} if self.rng.random() < 0.4 else {}


def family(o):
    from pypika.queries import (QueryBuilder, _SetOperation, CreateQueryBuilder, CreateIndexBuilder, DropQueryBuilder,
                                Table, Joiner)
    from pypika.dialects import MySQLLoadQueryBuilder, VerticaCopyQueryBuilder
    from pypika.terms import Case, AnalyticFunction, AggregateFunction, Function, Term
    for cls, fam in ((QueryBuilder, "query"), (_SetOperation, "setop"), (CreateQueryBuilder, "create"),
                     (CreateIndexBuilder, "createindex"), (DropQueryBuilder, "drop"), (MySQLLoadQueryBuilder, "load"),
                     (VerticaCopyQueryBuilder, "copy"), (Table, "table"), (Joiner, "joiner"), (Case, "case"),
                     (AnalyticFunction, "analytic"), (AggregateFunction, "aggregate"), (Function, "function"),
                     (Term, "term")):
        if isinstance(o, cls):
            return fam
    return "other"


def gen_args(c, fam, m, o):
    """(args, kwargs) specs for method m on an object of family fam; None = no generator (skip the method)"""
    rng = c.rng
    if ">" in m:
        m1, m2 = m.split(">")
        g1 = gen_args(c, fam, m1, o)
        g2 = gen_args(c, "joiner", m2, None)
        if g1 is None or g2 is None:
            return None
        return g1[0], g1[1], g2[0], g2[1]
    if m == "as_":
        return [S(rng.choice(["al", "q1", "z"]))], {}
    if m == "replace_table":
        return [c.tbl_ref(), c.tbl_ref()], {}
    if m == "negate":
        return [], {}
    if fam == "query":
        if m == "select":
            return c.some(c.term), {}
        if m == "from_":
            return [c.selectable()], {}
        if m in ("where", "having", "prewhere"):
            return [c.crit()], {}
        if m == "groupby":
            return c.some(lambda: rng.choice([S(c.name()), c.field(), I(1)]), 1, 2), {}
        if m == "rollup":
            kw = {"vendor": S("mysql")} if rng.random() < 0.3 else {}
            if rng.random() < 0.25:
                return [{"k": "list", "v": c.some(c.field, 1, 2)}], kw
            return c.some(c.field, 0 if kw else 1, 2), kw
        if m == "orderby":
            return c.some(lambda: rng.choice([S(c.name()), c.field()]), 1, 2), c.order_kw()
        if m == "join":
            r = rng.random()
            kw = {"how": {"k": "how", "v": rng.choice(["left", "inner", "cross", "full_outer"])}} if rng.random() < 0.3 else {}
            if r < 0.5:
                return [c.tbl_ref()], kw
            if r < 0.92:
                return [c.subq()], kw
            return [I(3)], kw
        if m in ("limit", "offset", "fetch_next"):
            return [I(rng.choice([0, 1, 10]))], {}
        if m == "top":
            kw = {}
            if rng.random() < 0.3:
                kw["percent"] = {"k": "bool", "v": True}
            if rng.random() < 0.2:
                kw["with_ties"] = {"k": "bool", "v": True}
            return [rng.choice([I(5), I(0), I(200), S("x")])], kw
        if m == "slice":
            return [{"k": "slice", "a": rng.choice([None, 1, 5]), "b": rng.choice([None, 10])}], {}
        if m in ("union", "union_all", "intersect", "except_of", "minus"):
            return [c.subq()], {}
        if m == "set":
            return [rng.choice([S(c.name()), c.field()]), c.lit()], {}
        if m in ("insert", "replace", "insert_or_replace"):
            r = rng.random()
            if r < 0.6:
                return c.some(c.lit, 0, 3), {}
            return [{"k": "tuple", "v": c.some(c.lit, 1, 2)}, {"k": "tuple", "v": c.some(c.lit, 1, 2)}], {}
        if m == "columns":
            return c.some(lambda: rng.choice([S(c.name()), c.field()]), 1, 3), {}
        if m in ("into", "update"):
            return [c.tbl()], {}
        if m in ("delete", "distinct", "ignore", "with_totals", "on_duplicate_key_ignore", "do_nothing", "final"):
            return [], {}
        if m == "for_update":
            if qual(o) in ("dialects.MySQLQueryBuilder", "dialects.PostgreSQLQueryBuilder") and rng.random() < 0.6:
                kw = {}
                if rng.random() < 0.4:
                    kw["nowait"] = {"k": "bool", "v": True}
                if rng.random() < 0.4:
                    kw["skip_locked"] = {"k": "bool", "v": True}
                if rng.random() < 0.6:
                    kw["of"] = {"k": "tuple", "v": [S(x) for x in rng.sample(["t1", "t2", "t3"], rng.randint(1, 3))]}
                return [], kw
            return [], {}
        if m == "with_":
            return [c.subq(), S(rng.choice(["w1", "w2"]))], {}
        if m in ("force_index", "use_index"):
            return c.some(lambda: rng.choice([S("ix1"), {"k": "index", "v": "ix2"}]), 1, 2), {}
        if m == "on_duplicate_key_update":
            return [rng.choice([S(c.name()), c.field()]), c.lit()], {}
        if m == "modifier":
            return [S(rng.choice(["SQL_CALC_FOUND_ROWS", "HIGH_PRIORITY"]))], {}
        if m == "hint":
            return [S("lbl")], {}
        if m in ("distinct_on", "on_conflict"):
            return c.some(lambda: rng.choice([S(c.name()), c.field()]), 0 if m == "on_conflict" else 1, 2), {}
        if m == "do_update":
            return [rng.choice([S(c.name()), c.field()])] + ([c.lit()] if rng.random() < 0.6 else []), {}
        if m == "using":
            return [c.tbl()], {}
        if m == "returning":
            return c.some(lambda: rng.choice([S(c.name()), S("*"), c.field(), I(1)]), 1, 2), {}
        if m == "sample":
            return [I(10)] + ([I(5)] if rng.random() < 0.4 else []), {}
        if m == "limit_by":
            return [I(2)] + c.some(lambda: rng.choice([S(c.name()), c.field()]), 1, 2), {}
        if m == "limit_offset_by":
            return [I(2), I(1)] + c.some(lambda: rng.choice([S(c.name()), c.field()]), 1, 2), {}
        return None
    if fam == "setop":
        if m == "orderby":
            return c.some(lambda: rng.choice([S(c.name()), c.field()]), 1, 2), c.order_kw()
        if m in ("limit", "offset"):
            return [I(rng.choice([1, 10]))], {}
        if m in ("union", "union_all", "intersect", "except_of", "minus"):
            return [c.subq()], {}
        return None
    if fam == "create":
        if m == "create_table":
            return [c.tbl()], {}
        if m in ("temporary", "unlogged", "with_system_versioning", "if_not_exists", "local", "preserve_rows"):
            return [], {}
        if m == "columns":
            return c.some(lambda: rng.choice([S(c.name()), {"k": "column", "n": c.name(), "t": "INT"},
                                              {"k": "tuple", "v": [S(c.name()), S("VARCHAR(10)")]}]), 1, 3), {}
        if m == "period_for":
            return [S("p"), S("a"), S("b")], {}
        if m in ("unique", "primary_key"):
            return c.some(lambda: S(c.name()), 1, 2), {}
        if m == "foreign_key":
            kw = {"on_delete": {"k": "refopt", "v": "cascade"}} if rng.random() < 0.4 else {}
            return [{"k": "list", "v": [S("a")]}, c.tbl(), {"k": "list", "v": [S("id")]}], kw
        if m == "as_select":
            return [c.subq()], {}
        return None
    if fam == "createindex":
        if m == "create_index":
            return [rng.choice([S("ix"), {"k": "index", "v": "ix"}])], {}
        if m == "columns":
            return c.some(lambda: S(c.name()), 1, 3), {}
        if m == "on":
            return [c.tbl()], {}
        if m == "where":
            return [c.crit()], {}
        if m in ("unique", "if_not_exists"):
            return [], {}
        return None
    if fam == "drop":
        if m == "drop_database":
            return [rng.choice([S("db"), {"k": "database", "v": "db"}])], {}
        if m == "drop_table":
            return [c.tbl()], {}
        if m in ("drop_user", "drop_view", "drop_index", "drop_dictionary", "drop_quota", "on_cluster"):
            return [S("nm")], {}
        if m == "if_exists":
            return [], {}
        return None
    if fam == "load":
        return ([S("/f.csv")], {}) if m == "load" else (([c.tbl()], {}) if m == "into" else None)
    if fam == "copy":
        return ([S("/f.csv")], {}) if m == "from_file" else (([c.tbl()], {}) if m == "copy_" else None)
    if fam == "table":
        if m == "for_":
            return [{"k": "system_time", "a": "2020-01-01", "b": rng.choice([None, "2021-01-01"])}], {}
        if m == "for_portion":
            return [{"k": "period", "f": {"k": "field", "n": "valid"}, "a": "2020-01-01", "b": "2021-01-01"}], {}
        return None
    if fam == "case":
        if m == "when":
            return [c.crit(), rng.choice([c.lit(), c.field()])], {}
        if m == "else_":
            return [c.lit()], {}
        return None
    if fam in ("analytic", "aggregate", "function"):
        if m == "filter":
            return c.some(c.crit, 1, 2), {}
        if m == "over":
            return c.some(c.field, 0, 2), {}
        if m == "orderby":
            return c.some(c.field, 1, 2), c.order_kw()
        if m in ("rows", "range"):
            def edge():
                r = rng.random()
                if r < 0.3:
                    return {"k": "current_row"}
                return {"k": "edge", "t": rng.choice(["preceding", "following"]), "v": rng.choice([None, 0, 3])}
            return [edge()] + ([edge()] if rng.random() < 0.6 else []), {}
        if m in ("ignore_nulls", "distinct"):
            return [], {}
        return None
    if fam == "joiner":
        if m == "on":
            return [rng.choice([c.crit(), c.crit(), {"k": "none"}])], ({"collate": S("utf8")} if rng.random() < 0.15 else {})
        if m in ("on_field", "using"):
            return c.some(lambda: S(c.name()), 0 if rng.random() < 0.1 else 1, 2), {}
        if m == "cross":
            return [], {}
        return None
    return None


def generic_args(c, o, m):
    """a method the generator has no recipe for (e.g. one added after this harness was written): one short string per
    required positional parameter, read from the signature of the undecorated function"""
    import inspect
    from harness.c01.world import underlying
    try:
        sig = inspect.signature(underlying(getattr(o, m)))
    except (TypeError, ValueError, AttributeError):
        return None
    args = []
    for p in list(sig.parameters.values())[1:]:
        if p.kind in (p.POSITIONAL_ONLY, p.POSITIONAL_OR_KEYWORD) and p.default is p.empty:
            args.append(S(c.rng.choice(["zz", "a", "t1"])))
    return args, {}


def start_objects(rng, theme):
    new = [["new", "Table:" + t] for t in rng.sample(["t1", "t2", "t3", "s.t4", "a.t1", "b.t2"], rng.randint(1, 3))]
    if theme == "shared":
        # argument objects shared between statements: one table and its same-name twin in another schema, two sub-queries
        # that several statements use as FROM and as JOIN items
        new = [["new", "Table:t1"], ["new", "Table:a.t1"]] + [x for x in new if x[1] not in ("Table:t1", "Table:a.t1")][:1]
        k = rng.choice(QUERY_KINDS)
        new += [["new", k], ["new", rng.choice([k, rng.choice(QUERY_KINDS)])], ["new", k], ["new", k]]
        return new
    q = lambda: rng.choice(QUERY_KINDS)
    if theme in ("query", "joiner", "setop"):
        new += [["new", q()]]
        if rng.random() < 0.5:
            new += [["new", rng.choice([new[-1][1], q()])]]
        if rng.random() < 0.08:
            new += [["new", "FetchNextAndOffsetRowsQueryBuilder"]]
    elif theme == "create":
        new += [["new", rng.choice(["CreateQueryBuilder", "CreateQueryBuilder", "MySQLCreateQueryBuilder",
                                    "VerticaCreateQueryBuilder", "SnowflakeCreateQueryBuilder"])], ["new", q()]]
    elif theme == "createindex":
        new += [["new", "CreateIndexBuilder"]]
    elif theme == "drop":
        new += [["new", rng.choice(["DropQueryBuilder", "ClickHouseDropQueryBuilder"])]]
    elif theme == "loadcopy":
        new += [["new", rng.choice(["MySQLLoadQueryBuilder", "VerticaCopyQueryBuilder"])]]
    elif theme == "case":
        new += [["new", "Case"]]
    elif theme == "function":
        new += [["new", rng.choice(["fn.Sum", "fn.Count", "fn.Avg", "fn.Coalesce", "an.Rank", "an.NTile", "an.Sum", "an.Avg",
                                    "an.LastValue", "an.FirstValue", "an.Lag"])] for _ in range(rng.randint(1, 2))]
    elif theme == "table":
        pass
    elif theme == "terms":
        new += [["new", rng.choice(["Field", "Tuple", "BasicCriterion", "ComplexCriterion", "ContainsCriterion",
                                    "BetweenCriterion", "NullCriterion", "BitwiseAndCriterion", "ArithmeticExpression",
                                    "Not", "ExistsCriterion", "ValueWrapper", "Function", "Rollup", "Array", "TupleIn", "Bracket",
                                    "Negative", "ch.HasAny", "ch.Length", "ch.NotEmpty", "ch.ToFixedString"])]
                for _ in range(rng.randint(1, 3))]
        new = [["new", "Table:t1"], ["new", "Table:t2"]] + [x for x in new if x[1] not in ("Table:t1", "Table:t2")]
    elif theme == "mixed":
        new += [["new", q()], ["new", "Case"], ["new", rng.choice(["fn.Sum", "an.Sum"])], ["new", "CreateQueryBuilder"]]
    elif theme == "twin":
        from harness.c01.world import ENTRY_POINTS
        new = [["new", "mutable:%s@%s" % (q(), rng.choice(ENTRY_POINTS))]] + new + [["new", q()]]
    return new


# methods preferred when seeding a query so that later calls have something to work on
SEED_CALLS = ["from_", "select"]


def gen_history(rng, tab, theme, ncalls):
    r = Runner(tab)
    c = Ctx(rng, r)
    steps = []

    def push(st):
        rec = r.step(st)
        steps.append(st)
        return rec
    for st in start_objects(rng, theme):
        push(st)
    if theme == "twin":
        c.exclude = {0}          # never pass the one mutable object to itself (cyclic statement)
    from pypika.queries import QueryBuilder
    # seed every fresh query builder with FROM + SELECT most of the time
    for k_, i in enumerate(list(c.queries())):
        if theme == "shared" and k_ >= 2:
            continue
        if rng.random() < 0.8 or theme == "shared":
            cur = i
            for m in SEED_CALLS:
                ga = gen_args(c, "query", m, r.U.objs[cur])
                if m == "from_":
                    ga = ([c.tbl(0.1)], {})
                rec = push(["call", cur, m] + list(ga))
                if rec.get("exc") is None and rec.get("kind") == "call":
                    cur = rec["ret"] if theme != "twin" or i != 0 else cur
    twin = theme == "twin"
    last = None
    repeats = []
    if theme == "shared":
        # the first two seeded queries are the shared sub-queries; the other two statements select FROM one of them each
        qs = c.selecting()
        fresh = [i for i in c.queries() if i not in qs]
        for stmt, sub in zip(fresh[:2], qs[:2]):
            rec = push(["call", stmt, "from_", [REF(sub)], {}])
            if rec.get("kind") == "call" and rec.get("exc") is None:
                push(["call", rec["ret"], "select", [S(c.name())], {}])
    for _ in range(ncalls):
        cands = [i for i in r.live() if qual(r.U.objs[i]) in tab]
        if not cands:
            break
        if not twin and rng.random() < 0.15:
            # branch again from an earlier base with the very same call: the result must not depend on what was derived
            # from that base in between
            earlier = [k for k, (st, rec) in enumerate(zip(steps, r.records))
                       if st[0] == "call" and rec.get("kind") == "call" and r.U.objs[st[1]] is not None
                       and family(r.U.objs[st[1]]) != "joiner"]
            if earlier:
                k = rng.choice(earlier)
                push(list(steps[k]))
                repeats.append([k, len(steps) - 1])
                continue
        if twin:
            from harness.c01.run import reaches_mutable
            others = [i for i in cands if i != 0 and not reaches_mutable(r.U.objs[i])]
            recv = 0 if (rng.random() < 0.85 or not others) else rng.choice(others)
        elif theme == "joiner" and rng.random() < 0.5:
            js = [i for i in cands if family(r.U.objs[i]) == "joiner"]
            qs = [i for i in cands if family(r.U.objs[i]) == "query"]
            recv = rng.choice(js) if js and rng.random() < 0.6 else rng.choice(qs or cands)
        elif last is not None and last in cands and rng.random() < 0.45:
            recv = last
        else:
            # bias towards objects of the theme, any live object otherwise (branching: old receivers are reused)
            themed = [i for i in cands if family(r.U.objs[i]) not in ("table", "term")] or cands
            recv = rng.choice(themed if rng.random() < 0.8 else cands)
        o = r.U.objs[recv]
        fam = family(o)
        meths = sorted(x for x in tab[qual(o)]["methods"] if not x.startswith("_"))     # private rows (_with_join) are reached
                                                                                        # through their public callers
        if not meths:
            continue
        if fam == "query":
            if twin:
                meths = [x for x in meths if x != "join"]           # a chain completes its join at once: q.join(x).on(...)
            elif rng.random() < 0.5:
                meths = [x for x in meths if ">" not in x]           # keep the four join>... rows from crowding the rest
            if theme in ("joiner", "shared") and rng.random() < (0.5 if theme == "joiner" else 0.7):
                meths = [x for x in meths if x.startswith("join") or (theme == "shared" and x == "from_")]
        ga = None
        for _try in range(4):
            m = rng.choice(meths)
            ga = gen_args(c, fam, m, o)
            if ga is None and ">" not in m:
                ga = generic_args(c, o, m)
            if ga is not None:
                break
        if ga is None:
            continue
        rec = push(["call", recv, m] + list(ga))
        if rec.get("kind") == "call" and rec.get("exc") is None:
            last = rec["ret"]
    return {"steps": steps, "theme": theme, "twin": twin, "repeats": repeats}


def pick_theme(rng):
    tot = sum(w for _, w in THEMES)
    x = rng.random() * tot
    for t, w in THEMES:
        x -= w
        if x < 0:
            return t
    return THEMES[0][0]
