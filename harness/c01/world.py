"""Running C01 histories on real pypika objects: the universe of tracked objects, argument construction from JSON
specs, identity-based dumps of attribute values, per-step observation (what changed, which containers are shared),
and the independent rendering snapshots used by the oracle."""
import enum
import inspect

PRIMS = (type(None), bool, int, float, str, bytes)


# ----------------------------------------------------------------------------------------------
# factories for `new` steps
# ----------------------------------------------------------------------------------------------
def _factories():
    import pypika
    from pypika import Query, Table, Case, Field
    from pypika.dialects import (MySQLQuery, VerticaQuery, OracleQuery, PostgreSQLQuery, RedshiftQuery, MSSQLQuery,
                                 ClickHouseQuery, SQLLiteQuery, SnowflakeQuery)
    from pypika import functions as fn, analytics as an
    from pypika.queries import (CreateQueryBuilder, CreateIndexBuilder, DropQueryBuilder, QueryBuilder)
    from pypika.dialects import (MySQLLoadQueryBuilder, VerticaCopyQueryBuilder, ClickHouseDropQueryBuilder,
                                 MySQLCreateQueryBuilder, VerticaCreateQueryBuilder, SnowflakeCreateQueryBuilder,
                                 FetchNextAndOffsetRowsQueryBuilder)
    from pypika.terms import (Tuple, Not, ExistsCriterion, Interval, Function, AggregateFunction, AnalyticFunction,
                              WindowFrameAnalyticFunction, IgnoreNullsAnalyticFunction, Rollup, ValueWrapper, Array,
                              JSON, Bracket, Negative)
    F = {}
    qs = {"QueryBuilder": Query, "MySQLQueryBuilder": MySQLQuery, "VerticaQueryBuilder": VerticaQuery,
          "OracleQueryBuilder": OracleQuery, "PostgreSQLQueryBuilder": PostgreSQLQuery,
          "RedShiftQueryBuilder": RedshiftQuery, "MSSQLQueryBuilder": MSSQLQuery,
          "ClickHouseQueryBuilder": ClickHouseQuery, "SQLLiteQueryBuilder": SQLLiteQuery,
          "SnowflakeQueryBuilder": SnowflakeQuery}
    for name, q in qs.items():
        F[name] = (lambda q=q: q._builder())
        F["mutable:" + name] = (lambda q=q: q._builder(immutable=False))
    F["FetchNextAndOffsetRowsQueryBuilder"] = lambda: FetchNextAndOffsetRowsQueryBuilder()
    F["CreateQueryBuilder"] = lambda: CreateQueryBuilder()
    F["MySQLCreateQueryBuilder"] = lambda: MySQLCreateQueryBuilder()
    F["VerticaCreateQueryBuilder"] = lambda: VerticaCreateQueryBuilder()
    F["SnowflakeCreateQueryBuilder"] = lambda: SnowflakeCreateQueryBuilder()
    F["CreateIndexBuilder"] = lambda: CreateIndexBuilder()
    F["DropQueryBuilder"] = lambda: DropQueryBuilder()
    F["ClickHouseDropQueryBuilder"] = lambda: ClickHouseDropQueryBuilder()
    F["MySQLLoadQueryBuilder"] = lambda: MySQLLoadQueryBuilder()
    F["VerticaCopyQueryBuilder"] = lambda: VerticaCopyQueryBuilder()
    F["Case"] = lambda: Case()
    for t in ("t1", "t2", "t3"):
        F["Table:" + t] = (lambda t=t: Table(t))
    F["Table:s.t4"] = lambda: Table("t4", schema="s")
    F["Table:a.t1"] = lambda: Table("t1", schema="a")          # same names as t1 / t2, other schema: different tables
    F["Table:b.t2"] = lambda: Table("t2", schema="b")
    # terms refer to tables t1/t2 (by value: Table.__eq__ compares names), so that replace_table has something to replace
    T1, T2 = (lambda: Table("t1")), (lambda: Table("t2"))
    F["fn.Sum"] = lambda: fn.Sum(Field("x", table=T1()))
    F["fn.Count"] = lambda: fn.Count(Field("y", table=T2()))
    F["fn.Avg"] = lambda: fn.Avg(Field("z"))
    F["fn.Coalesce"] = lambda: fn.Coalesce(Field("x", table=T1()), 0)
    F["an.Rank"] = lambda: an.Rank()
    F["an.NTile"] = lambda: an.NTile(4)
    F["an.Sum"] = lambda: an.Sum(Field("x", table=T1()))
    F["an.Avg"] = lambda: an.Avg(Field("y"))
    F["an.LastValue"] = lambda: an.LastValue(Field("x", table=T1()))
    F["an.FirstValue"] = lambda: an.FirstValue(Field("y"))
    F["an.Lag"] = lambda: an.Lag(Field("x", table=T2()), 1)
    F["Field"] = lambda: Field("f", table=T1())
    F["Tuple"] = lambda: Tuple(Field("a", table=T1()), Field("b", table=T2()), 1, "x")
    F["BasicCriterion"] = lambda: Field("a", table=T1()) == Field("a", table=T2())
    F["ComplexCriterion"] = lambda: (Field("a", table=T1()) == 1) & (Field("b", table=T2()) > 2)
    F["ContainsCriterion"] = lambda: Field("a", table=T1()).isin([1, 2])
    F["TupleIn"] = lambda: Tuple(Field("a", table=T1()), Field("b", table=T1())).isin([Tuple(1, 2)])
    F["BetweenCriterion"] = lambda: Field("a", table=T1()).between(1, 5)
    F["NullCriterion"] = lambda: Field("a", table=T2()).isnull()
    F["BitwiseAndCriterion"] = lambda: Field("a", table=T1()).bitwiseand(3)
    F["ArithmeticExpression"] = lambda: Field("a", table=T1()) + Field("b", table=T2()) * 2
    F["Not"] = lambda: Not(Field("a", table=T1()) == 1)
    F["ExistsCriterion"] = lambda: ExistsCriterion(Query.from_(T1()).select("x"))
    F["ValueWrapper"] = lambda: ValueWrapper("v")
    F["Function"] = lambda: Function("f", Field("a", table=T1()), 2)
    F["Rollup"] = lambda: Rollup(Field("a", table=T1()), Field("b", table=T2()))
    F["Array"] = lambda: Array(Field("a", table=T1()), 2)
    F["Bracket"] = lambda: Bracket(Field("a", table=T1()) + 1)
    F["Negative"] = lambda: Negative(Field("a", table=T1()))
    from pypika.clickhouse import array as ch_array, type_conversion as ch_conv
    F["ch.HasAny"] = lambda: ch_array.HasAny(Field("a", table=T1()), Field("b", table=T2()))
    F["ch.Length"] = lambda: ch_array.Length(Field("a", table=T1()))
    F["ch.NotEmpty"] = lambda: ch_array.NotEmpty(Field("a", table=T1()))
    F["ch.ToFixedString"] = lambda: ch_conv.ToFixedString(Field("a", table=T1()), 8)
    return F


_FACT = None


class FactoryError(Exception):
    pass


ENTRY_POINTS = ["_builder", "from_", "into", "update", "select", "with_"]
QUERY_CLASSES = {"QueryBuilder": "Query", "MySQLQueryBuilder": "MySQLQuery", "VerticaQueryBuilder": "VerticaQuery",
                 "OracleQueryBuilder": "OracleQuery", "PostgreSQLQueryBuilder": "PostgreSQLQuery",
                 "RedShiftQueryBuilder": "RedshiftQuery", "MSSQLQueryBuilder": "MSSQLQuery",
                 "ClickHouseQueryBuilder": "ClickHouseQuery", "SQLLiteQueryBuilder": "SQLLiteQuery",
                 "SnowflakeQueryBuilder": "SnowflakeQuery"}


def parse_kind(kind):
    """'[mutable:]Kind[@entry][?opt=val&...]' -> (Kind, entry or None, {opt: value});  mutable: == ?immutable=False"""
    opts = {}
    if kind.startswith("mutable:"):
        kind = kind[8:]
        opts["immutable"] = False
    if "?" in kind:
        kind, q = kind.split("?", 1)
        for kv in q.split("&"):
            k, v = kv.split("=")
            opts[k] = {"True": True, "False": False}[v]
    entry = None
    if "@" in kind:
        kind, entry = kind.split("@", 1)
    return kind, entry, opts


def strip_immutable(kind):
    """the same constructor call without immutable=False (the immutable twin)"""
    base, entry, opts = parse_kind(kind)
    opts.pop("immutable", None)
    out = base + ("@" + entry if entry else "")
    if opts:
        out += "?" + "&".join("%s=%s" % kv for kv in sorted(opts.items()))
    return out


def query_entry(base, entry, opts):
    """a query builder obtained through one of the public entry points of its Query class, with constructor options"""
    import pypika
    import pypika.dialects as d
    qn = QUERY_CLASSES[base]
    Q = getattr(pypika, qn, None) or getattr(d, qn)
    if entry == "_builder":
        return Q._builder(**opts)
    if entry == "from_":
        return Q.from_("t0", **opts)
    if entry == "into":
        return Q.into("t0", **opts)
    if entry == "update":
        return Q.update("t0", **opts)
    if entry == "select":
        return Q.select(1, **opts)
    if entry == "with_":
        return Q.with_(pypika.Query.from_("w0").select("x"), "w", **opts)
    raise FactoryError("unknown entry point " + entry)


def factory(kind):
    global _FACT
    if _FACT is None:
        _FACT = _factories()          # an import problem here is a harness/plugin failure, never a skipped step
    if kind in _FACT:
        return _FACT[kind]()
    base, entry, opts = parse_kind(kind)
    if base in QUERY_CLASSES and (entry or opts):
        return query_entry(base, entry or "_builder", opts)
    raise FactoryError("unknown factory " + kind)


def factory_kinds():
    global _FACT
    if _FACT is None:
        _FACT = _factories()
    return sorted(_FACT)


def qual(o):
    t = type(o)
    return "%s.%s" % (t.__module__.split(".")[-1], t.__name__)


# ----------------------------------------------------------------------------------------------
# argument construction
# ----------------------------------------------------------------------------------------------
def build_arg(spec, U):
    """JSON spec -> python value (tracked objects are looked up in the universe U)"""
    from pypika import Field, Table, Order, JoinType, Index
    from pypika import functions as fn, analytics as an
    from pypika.terms import Star, Tuple, EmptyCriterion, PseudoColumn
    from pypika.queries import Column, Database
    from pypika.enums import ReferenceOption
    k = spec["k"]
    if k in ("str", "int", "bool"):
        return spec["v"]
    if k == "none":
        return None
    if k == "ref":
        o = U.objs[spec["i"]] if 0 <= spec["i"] < len(U.objs) else None
        if o is None:
            raise LookupError("dead or missing object %r" % spec["i"])
        return o
    if k == "field":
        t = build_arg(spec["t"], U) if spec.get("t") else None
        return Field(spec["n"], table=t) if t is not None else Field(spec["n"])
    if k == "star":
        t = build_arg(spec["t"], U) if spec.get("t") else None
        return Star(t) if t is not None else Star()
    if k == "crit":
        f = build_arg(spec["f"], U)
        v = build_arg(spec["v"], U)
        op = spec["op"]
        return {"eq": lambda: f == v, "ne": lambda: f != v, "gt": lambda: f > v, "lt": lambda: f < v,
                "like": lambda: f.like(str(v)), "isnull": lambda: f.isnull(), "isin": lambda: f.isin([v, 2])}[op]()
    if k == "and":
        return build_arg(spec["a"], U) & build_arg(spec["b"], U)
    if k == "empty":
        return EmptyCriterion()
    if k == "fn":
        a = build_arg(spec["a"], U)
        return {"Sum": fn.Sum, "Count": fn.Count, "Max": fn.Max, "Lower": fn.Lower}[spec["n"]](a)
    if k == "arith":
        return build_arg(spec["a"], U) + build_arg(spec["b"], U)
    if k == "list":
        return [build_arg(x, U) for x in spec["v"]]
    if k == "tuple":
        return tuple(build_arg(x, U) for x in spec["v"])
    if k == "index":
        return Index(spec["v"])
    if k == "order":
        return {"asc": Order.asc, "desc": Order.desc}[spec["v"]]
    if k == "how":
        return getattr(JoinType, spec["v"])
    if k == "slice":
        return slice(spec["a"], spec["b"])
    if k == "edge":
        return (an.Preceding if spec["t"] == "preceding" else an.Following)(spec.get("v"))
    if k == "current_row":
        return an.CURRENT_ROW
    if k == "column":
        return Column(spec["n"], spec.get("t"))
    if k == "database":
        return Database(spec["v"])
    if k == "table":
        return Table(spec["v"])
    if k == "period":
        f = build_arg(spec["f"], U)
        return f.from_to(spec["a"], spec["b"])
    if k == "system_time":
        from pypika import SYSTEM_TIME
        return SYSTEM_TIME.between(spec["a"], spec["b"]) if spec.get("b") is not None else SYSTEM_TIME.as_of(spec["a"])
    if k == "refopt":
        return getattr(ReferenceOption, spec["v"])
    raise ValueError("unknown arg spec %r" % (spec,))


# ----------------------------------------------------------------------------------------------
# the universe of tracked objects
# ----------------------------------------------------------------------------------------------
class Universe:
    def __init__(self):
        self.objs = []          # index -> python object (None = dead placeholder)
        self.visible = []       # index -> obtained by the user (created, returned, passed) vs hidden copy inside a wrapper
        self.idx = {}           # id(obj) -> index
        self.keep = []          # keeps every labelled object alive so that id() is never reused
        self.ident = {}         # id(obj) -> identity label
        self.pids = {}          # id(container) -> small number
        self.prev = {}          # index -> previous dump {attr: (cont, pid, labels)}
        self.prev_vals = {}     # index -> previous shallow copy of vars(o)

    def track(self, o, visible=True):
        if o is not None and id(o) in self.idx:
            i = self.idx[id(o)]
            self.visible[i] = self.visible[i] or visible
            return i
        self.objs.append(o)
        self.visible.append(visible if o is not None else False)
        if o is not None:
            self.idx[id(o)] = len(self.objs) - 1
            self.keep.append(o)
        return len(self.objs) - 1

    # ---- labels ----
    def item_labels(self, v, out, depth=0):
        """flatten value v into a list of items: ('a', label) atoms and ('r', index) references"""
        if id(v) in self.idx and not isinstance(v, PRIMS):
            out.append(("r", self.idx[id(v)]))
        elif isinstance(v, PRIMS):
            r = repr(v)
            out.append(("a", r if len(r) <= 48 else r[:45] + "..."))
        elif isinstance(v, enum.Enum):
            out.append(("a", "%s.%s" % (type(v).__name__, v.name)))
        elif isinstance(v, (tuple, list)) and depth < 4:
            out.append(("a", "(" if isinstance(v, tuple) else "["))
            for x in v:
                self.item_labels(x, out, depth + 1)
            out.append(("a", ")" if isinstance(v, tuple) else "]"))
        elif isinstance(v, type):
            out.append(("a", "class " + v.__name__))
        else:
            k = id(v)
            if k not in self.ident:
                self.keep.append(v)
                self.ident[k] = "%s#%d" % (type(v).__name__, len(self.ident))
            out.append(("a", self.ident[k]))
        return out

    def pid(self, v):
        k = id(v)
        if k not in self.pids:
            self.keep.append(v)
            self.pids[k] = len(self.pids)
        return self.pids[k]

    def dump_value(self, v):
        """-> (is_container, pid | None, [items])"""
        if type(v) in (list, set, dict, frozenset) and type(v) is not frozenset:
            items = []
            if isinstance(v, list):
                for x in v:
                    self.item_labels(x, items, 1)
            elif isinstance(v, set):
                per = []
                for x in v:
                    per.append(self.item_labels(x, [], 1))
                for p in sorted(per, key=lambda p: repr(p)):
                    items += p
            else:
                for kk, vv in v.items():
                    self.item_labels(kk, items, 1)
                    self.item_labels(vv, items, 1)
            return (True, self.pid(v), items)
        return (False, None, self.item_labels(v, [], 0))

    def dump_obj(self, o):
        d = {}
        for a in sorted(vars(o)):
            d[a] = self.dump_value(vars(o)[a])
        return d


def is_diff(base, a, cur):
    """base: baseline dump dict or None; cur = (cont, pid, items) — mirrors HeapCorr.is_diff"""
    if base is None or a not in base:
        return True
    b = base[a]
    if cur[0]:
        return (not b[0]) or b[1] != cur[1] or b[2] != cur[2]
    return b[0] or b[2] != cur[2]


# ----------------------------------------------------------------------------------------------
# rendering snapshots for the oracle (independent of the model)
# ----------------------------------------------------------------------------------------------
def render(o):
    """what the property observes: o.get_sql() / str(o); None for objects that have no SQL text (Joiner)"""
    try:
        if hasattr(o, "get_sql"):
            try:
                txt = "sql:" + str(o.get_sql())
            except TypeError:
                return "str:" + str(o)
            try:
                # terms name their table only inside multi-table statements: observe that rendering too
                ns = str(o.get_sql(with_namespace=True, quote_char='"'))
                if ns != txt[4:]:
                    txt += "  [qualified: " + ns + "]"
            except Exception:  # noqa
                pass
            return txt
        if type(o).__str__ is not object.__str__:
            return "str:" + str(o)
    except Exception as e:  # noqa
        return "!" + type(e).__name__
    return None


def alias_of(o):
    try:
        d = vars(o)
    except TypeError:
        return None
    return ("alias", d.get("alias")) if "alias" in d else None


def underlying(meth):
    """the undecorated function behind a bound @builder method (or the method itself); sees through stacked wrappers
    (the decorator's `_copy`, and the driver's history-perturbation shim around it)"""
    f = getattr(meth, "__func__", meth)
    for _ in range(6):
        cl = getattr(f, "__closure__", None)
        if not cl or not (f.__name__ == "_copy" or getattr(f, "__wrapped_by_purity__", False)):
            break
        inner = None
        for c in cl:
            try:
                if inspect.isfunction(c.cell_contents):
                    inner = c.cell_contents
                    break
            except ValueError:
                pass
        if inner is None:
            break
        f = inner
    return f
