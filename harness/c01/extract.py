"""Mode-A (fail-closed `ast` walk) extraction of the C01 class table from the pypika sources.

For every class of pypika/{utils,terms,queries,dialects,functions,analytics}.py that has a @builder method in its MRO
(plus the listed non-builder entry points, e.g. Joiner.on) this module computes

  * the attributes initialised in __init__ (following super().__init__) with the kind of their initial value,
  * the attributes re-created by __copy__ (following super().__copy__()); None = no __copy__ (plain shallow copy),
  * for every @builder method, after inlining self._helper(...) calls, the ordered list of effects
        (target, kind, attr)   target in  self | via:<attr> | arg:<param> | argvia:<param>:<attr>
                               kind   in  rebind | inplace | nested:<attr>
    and what the method returns (self / a new wrapper object holding the copy / an attribute of self).

Anything that assigns through `self`/a parameter in a shape that is not recognised raises ExtractError (fail closed).
The recogniser is part of the trusted base; its classification is cross-checked dynamically by the `histories`
correspondence family (harness/props/C01.py).
"""
import ast
import os

MODULES = ["utils", "terms", "queries", "dialects", "functions", "analytics",
           "array", "type_conversion", "search_string", "condition", "nullable_arg"]
MODULE_PATH = {m: os.path.join("clickhouse", m) for m in ("array", "type_conversion", "search_string", "condition", "nullable_arg")}

MUTATORS = {"append", "extend", "add", "remove", "insert", "pop", "clear", "update", "discard", "sort", "reverse",
            "setdefault", "popitem", "difference_update", "intersection_update", "symmetric_difference_update",
            "__setitem__", "__delitem__", "__iadd__", "appendleft", "extendleft"}
# method names that may be called on containers / parameters / scalar attributes without changing them
PURE_METHODS = {"get", "copy", "index", "count", "items", "keys", "values", "join", "format", "startswith", "endswith",
                "lower", "upper", "strip", "replace", "split", "get_sql", "replace_table", "fields_", "tables_",
                "nodes_", "find_", "wrap_constant", "wrap_json", "get_table_name", "isdisjoint", "issubset", "union",
                "intersection", "difference", "fromkeys", "get_value_sql", "get_function_sql", "warn", "from_iterable",
                "__new__", "is_aggregate", "validate", "as_", "negate", "isin", "notin", "get_special_params_sql"}
PURE_FUNCS = {"isinstance", "len", "max", "min", "int", "str", "bool", "float", "list", "tuple", "set", "dict", "any",
              "all", "hasattr", "getattr", "type", "copy", "sorted", "reversed", "enumerate", "zip", "map", "filter",
              "range", "sum", "repr", "format_quotes", "format_alias_sql", "validate", "resolve_is_aggregate",
              "reduce", "id", "iter", "next", "print", "issubclass", "callable", "super", "AttributeError",
              "QueryException", "RollupException", "JoinException", "TypeError", "ValueError", "CaseException",
              "SetOperationException", "FunctionException", "DialectNotSupported", "GroupingException",
              "DeprecationWarning", "NotImplementedError"}
FORBIDDEN_NAMES = {"setattr", "delattr", "exec", "eval", "vars", "globals", "locals", "__setattr__", "__dict__",
                   "__delattr__", "__setstate__", "deepcopy"}
# public non-builder entry points that are part of the chaining API
EXTRA_ENTRY = {"queries.Joiner": ["on", "on_field", "using", "cross"]}
MAX_INLINE_DEPTH = 8


class ExtractError(Exception):
    pass


def _loc(mod, node):
    return "pypika/%s.py:%s" % (MODULE_PATH.get(mod, mod), getattr(node, "lineno", "?"))


# ----------------------------------------------------------------------------------------------
# class index
# ----------------------------------------------------------------------------------------------
class ClassInfo:
    def __init__(self, mod, node, qual):
        self.mod, self.node, self.qual, self.name = mod, node, qual, node.name
        self.methods = {}
        for m in node.body:
            if isinstance(m, ast.FunctionDef):
                self.methods[m.name] = m
        self.base_quals = []
        self.mro = None


class Index:
    def __init__(self, repo):
        self.repo = repo
        self.trees, self.ns, self.classes = {}, {}, {}
        for mod in MODULES:
            path = os.path.join(repo, "pypika", MODULE_PATH.get(mod, mod) + ".py")
            with open(path) as f:
                src = f.read()
            self.trees[mod] = ast.parse(src, path)
        self.functions = {}          # mod -> {name: FunctionDef} for module-level functions
        for mod, tree in self.trees.items():
            self.functions[mod] = {n.name: n for n in tree.body if isinstance(n, ast.FunctionDef)}
        for mod, tree in self.trees.items():
            ns = {}
            for node in tree.body:
                if isinstance(node, ast.ClassDef):
                    q = "%s.%s" % (mod, node.name)
                    self.classes[q] = ClassInfo(mod, node, q)
                    ns[node.name] = q
                    for sub in node.body:     # nested classes (WindowFrameAnalyticFunction.Edge): indexed, never a builder class
                        if isinstance(sub, ast.ClassDef):
                            self.classes[q + "." + sub.name] = ClassInfo(mod, sub, q + "." + sub.name)
            self.ns[mod] = ns
        for mod, tree in self.trees.items():
            for node in ast.walk(tree):
                if isinstance(node, ast.ImportFrom) and node.module and node.level == 0:
                    parts = node.module.split(".")
                    if parts[0] != "pypika":
                        continue
                    src_mods = [parts[1]] if len(parts) > 1 else ["terms", "queries"]   # `from pypika import Field`
                    for al in node.names:
                        for sm in src_mods:
                            if sm in self.ns and al.name in self.ns[sm]:
                                self.ns[mod].setdefault(al.asname or al.name, self.ns[sm][al.name])
        for ci in self.classes.values():
            for b in ci.node.bases:
                q = self.resolve(ci.mod, b)
                if q is not None:
                    ci.base_quals.append(q)
        for ci in self.classes.values():
            self.mro(ci.qual)

    def resolve(self, mod, expr):
        """class-valued expression -> qualified name or None"""
        if isinstance(expr, ast.Name):
            return self.ns[mod].get(expr.id)
        if isinstance(expr, ast.Attribute) and isinstance(expr.value, ast.Name):
            outer = self.ns[mod].get(expr.value.id)
            if outer and (outer + "." + expr.attr) in self.classes:
                return outer + "." + expr.attr
        return None

    def mro(self, q):
        ci = self.classes[q]
        if ci.mro is not None:
            return ci.mro
        seqs = [list(self.mro(b)) for b in ci.base_quals] + [list(ci.base_quals)]
        res = [q]
        while any(seqs):
            seqs = [s for s in seqs if s]
            for s in seqs:
                cand = s[0]
                if not any(cand in t[1:] for t in seqs):
                    break
            else:
                raise ExtractError("inconsistent MRO for " + q)
            res.append(cand)
            seqs = [[x for x in s if x != cand] for s in seqs]
        ci.mro = res
        return res

    def find_method(self, q, name, after=None):
        """(defining class qual, FunctionDef) of `name` in the MRO of q (strictly after class `after` when given)"""
        mro = self.classes[q].mro
        start = mro.index(after) + 1 if after is not None else 0
        for c in mro[start:]:
            m = self.classes[c].methods.get(name)
            if m is not None:
                return c, m
        return None

    def is_builder(self, fn):
        for d in fn.decorator_list:
            if isinstance(d, ast.Name) and d.id == "builder":
                return True
            if isinstance(d, ast.Attribute) and d.attr == "builder":
                return True
        return False


def _is_self_attr(node, selfname="self"):
    return isinstance(node, ast.Attribute) and isinstance(node.value, ast.Name) and node.value.id == selfname


def _is_super_call(node):
    return isinstance(node, ast.Call) and isinstance(node.func, ast.Name) and node.func.id == "super"


def _strip_doc(body):
    if body and isinstance(body[0], ast.Expr) and isinstance(body[0].value, ast.Constant) and isinstance(body[0].value.value, str):
        return body[1:]
    return body


# ----------------------------------------------------------------------------------------------
# __init__ attributes (kind of the initial value) and parameter -> attribute map
# ----------------------------------------------------------------------------------------------
def _value_kind(v):
    if isinstance(v, (ast.List, ast.ListComp)):
        return "list"
    if isinstance(v, (ast.Set, ast.SetComp)):
        return "set"
    if isinstance(v, (ast.Dict, ast.DictComp)):
        return "dict"
    if isinstance(v, ast.Call) and isinstance(v.func, ast.Name) and v.func.id in ("list", "set", "dict") :
        return v.func.id
    if isinstance(v, ast.Constant) or isinstance(v, ast.Tuple):
        return "scalar"
    if isinstance(v, ast.Name):
        return "param"
    return "scalar"


def init_attrs(ix, q, _after=None, _seen=None):
    """ordered {attr: kind} for class q following super().__init__ chains; also {attr: param name} and
    {attr: annotated class qual} for attributes stored straight from a parameter"""
    attrs, from_param, attr_cls = {}, {}, {}
    found = ix.find_method(q, "__init__", _after)
    if found is None:
        return attrs, from_param, attr_cls
    defc, fn = found
    mod = ix.classes[defc].mod
    selfname = fn.args.args[0].arg
    ann = {}
    for a in fn.args.args[1:] + fn.args.kwonlyargs:
        if a.annotation is not None:
            an = a.annotation
            if isinstance(an, ast.Constant) and isinstance(an.value, str):
                try:
                    an = ast.parse(an.value, mode="eval").body
                except SyntaxError:
                    an = None
            c = ix.resolve(mod, an) if an is not None else None
            if c:
                ann[a.arg] = c

    def walk(stmts):
        for s in stmts:
            if isinstance(s, (ast.Assign, ast.AnnAssign)):
                targets = s.targets if isinstance(s, ast.Assign) else [s.target]
                for t in targets:
                    if _is_self_attr(t, selfname) and s.value is not None:
                        k = _value_kind(s.value)
                        attrs[t.attr] = k if t.attr not in attrs or attrs[t.attr] == k else "mixed"
                        if isinstance(s.value, ast.Name):
                            from_param[t.attr] = s.value.id
                            if s.value.id in ann:
                                attr_cls[t.attr] = ann[s.value.id]
            elif isinstance(s, ast.Expr) and isinstance(s.value, ast.Call) and isinstance(s.value.func, ast.Attribute) \
                    and s.value.func.attr == "__init__" and _is_super_call(s.value.func.value):
                a2, p2, c2 = init_attrs(ix, q, defc)
                # map the parent's parameter names through the super().__init__(...) call when they are plain names
                pfound = ix.find_method(q, "__init__", defc)
                ren = {}
                if pfound is not None:
                    pnames = [a.arg for a in pfound[1].args.args[1:]]
                    for i, av in enumerate(s.value.args):
                        if i < len(pnames) and isinstance(av, ast.Name):
                            ren[pnames[i]] = av.id
                    for kw in s.value.keywords:
                        if kw.arg and isinstance(kw.value, ast.Name):
                            ren[kw.arg] = kw.value.id
                for k, v in a2.items():
                    attrs.setdefault(k, v)
                for k, v in p2.items():
                    if v in ren:
                        from_param.setdefault(k, ren[v])
                for k, v in c2.items():
                    attr_cls.setdefault(k, v)
            elif isinstance(s, (ast.If, ast.For, ast.While, ast.With, ast.Try)):
                for fld in ("body", "orelse", "finalbody"):
                    walk(getattr(s, fld, []) or [])
                for h in getattr(s, "handlers", []) or []:
                    walk(h.body)
    walk(_strip_doc(fn.body))
    return attrs, from_param, attr_cls


# ----------------------------------------------------------------------------------------------
# __copy__
# ----------------------------------------------------------------------------------------------
def copy_attrs(ix, q, _after=None):
    """None when no class in the MRO defines __copy__ (plain shallow copy.copy); else the list of re-created attributes.
    Recognised statements only; anything else raises."""
    found = ix.find_method(q, "__copy__", _after)
    if found is None:
        return None
    defc, fn = found
    mod = ix.classes[defc].mod
    body = _strip_doc(fn.body)
    selfname = fn.args.args[0].arg
    out, new, have_update = [], None, False
    for s in body:
        where = _loc(mod, s)
        if isinstance(s, ast.Assign) and len(s.targets) == 1 and isinstance(s.targets[0], ast.Name):
            v = s.value
            src = ast.unparse(v).replace(" ", "")
            if src == "type(%s).__new__(type(%s))" % (selfname, selfname):
                new = s.targets[0].id
                continue
            if src == "super().__copy__()":
                new = s.targets[0].id
                inner = copy_attrs(ix, q, defc)
                if inner is None:
                    raise ExtractError("%s: super().__copy__() but no parent defines __copy__" % where)
                out += inner
                have_update = True
                continue
            raise ExtractError("%s: unrecognised statement in __copy__: %s" % (where, ast.unparse(s)))
        if isinstance(s, ast.Expr) and ast.unparse(s.value).replace(" ", "") == "%s.__dict__.update(%s.__dict__)" % (new, selfname):
            have_update = True
            continue
        if isinstance(s, ast.Assign) and len(s.targets) == 1 and isinstance(s.targets[0], ast.Attribute) \
                and isinstance(s.targets[0].value, ast.Name) and s.targets[0].value.id == new and new is not None:
            a = s.targets[0].attr
            v = s.value
            if isinstance(v, ast.Call) and isinstance(v.func, ast.Name) and v.func.id in ("copy", "list", "set", "dict") \
                    and len(v.args) == 1 and not v.keywords and _is_self_attr(v.args[0], selfname) and v.args[0].attr == a:
                if not have_update:
                    raise ExtractError("%s: attribute re-created before __dict__.update" % where)
                out.append(a)
                continue
            if isinstance(v, ast.Call) and isinstance(v.func, ast.Attribute) and v.func.attr == "copy" and not v.args \
                    and _is_self_attr(v.func.value, selfname) and v.func.value.attr == a:
                out.append(a)
                continue
            raise ExtractError("%s: unrecognised attribute assignment in __copy__: %s" % (where, ast.unparse(s)))
        if isinstance(s, ast.Return) and isinstance(s.value, ast.Name) and s.value.id == new:
            continue
        raise ExtractError("%s: unrecognised statement in __copy__: %s" % (where, ast.unparse(s)))
    if new is None or not have_update:
        raise ExtractError("%s: __copy__ of %s does not start from a shallow copy of __dict__" % (_loc(mod, fn), q))
    seen, res = set(), []
    for a in out:
        if a not in seen:
            seen.add(a)
            res.append(a)
    return res


# ----------------------------------------------------------------------------------------------
# effect analysis of method bodies (abstract interpretation over access paths)
# ----------------------------------------------------------------------------------------------
SELF = ("self",)
OTHER = ("other",)
SELFCOPY = ("selfcopy",)       # result of a @builder call on the receiver: a further copy of it


class Fresh:
    """a newly constructed object of a known class; fields: attr -> list of abstract values"""
    def __init__(self, cls, fields):
        self.cls, self.fields = cls, fields

    def __eq__(self, o):
        return self is o

    def __hash__(self):
        return id(self)


def _uniq(vals):
    out = []
    for v in vals:
        if v not in out:
            out.append(v)
    return out


class Analyzer:
    def __init__(self, ix):
        self.ix = ix
        self._init_cache = {}

    def inits(self, q):
        if q not in self._init_cache:
            self._init_cache[q] = init_attrs(self.ix, q)
        return self._init_cache[q]

    # ---- entry -------------------------------------------------------------------------------
    def analyse(self, q, mname, delegate=False):
        """delegate=True: an UNdecorated override of a @builder method that obtains the copy from a @builder call on the
        receiver (`query = super().m(...); query.x = ...; return query`).  The table row is a copying row whose body object
        is that copy: the inlined @builder callee's writes and the writes through the returned copy are `self` effects; a
        write on the receiver itself (outside the inlined callee) is reported against the never-safe target via:<receiver>;
        every return must be the copy."""
        found = self.ix.find_method(q, mname)
        if found is None:
            raise ExtractError("method %s.%s not found" % (q, mname))
        defc, fn = found
        self.effects, self.returns, self.falls_through = [], [], False
        self.entry_cls = q
        self.entry_copies = self.ix.is_builder(fn) or delegate
        self.delegate, self.in_builder, self.builder_calls = delegate, 0, 0
        self.guards = []            # stack of (paths, attr) for the enclosing tests `<path>.<attr> is None`
        env = self._bind_params(fn, None, None, entry=True)
        env[fn.args.args[0].arg] = [SELF]
        self._run_fn(q, defc, fn, env, depth=0, stack=[(defc, mname)], top=True)
        if delegate and all(isinstance(st, ast.Raise) for st in _strip_doc(fn.body)):
            return [], ("self",)        # the override rejects the call outright (raise only): no effect, no result
        if delegate:
            vals = [v for vs, _ in self.returns for v in vs]
            if not self.builder_calls or not vals or any(v != SELFCOPY for v in vals):
                raise ExtractError("%s.%s: undecorated override of a @builder method does not return the copy obtained "
                                   "from a @builder call on the receiver" % (q, mname))
        return _uniq(self.effects), self._ret_kind(q, mname, fn)

    def _ret_kind(self, q, mname, fn):
        kinds = []
        for vals, node in self.returns:
            for v in vals:
                if v in (SELF, SELFCOPY) or v == ("none",):
                    kinds.append(("self",))
                elif isinstance(v, Fresh):
                    flds = {}
                    for a, avs in v.fields.items():
                        srcs = []
                        for av in avs:
                            if av == SELF:
                                srcs.append("self")
                            elif isinstance(av, tuple) and av[0] == "param":
                                srcs.append("arg:" + av[1])
                        if srcs:
                            flds[a] = srcs[0]
                    kinds.append(("new", v.cls, tuple(sorted(flds.items()))))
                elif isinstance(v, tuple) and v[0] == "attr" and v[1] == SELF:
                    kinds.append(("via", v[2]))
                elif isinstance(v, tuple) and v[0] == "callcopy":
                    kinds.append(("call", v[1], v[2]))
                else:
                    raise ExtractError("%s.%s: unrecognised return value %s" % (q, mname, ast.unparse(node) if node else v))
        kinds = _uniq(kinds) or [("self",)]
        if len(kinds) > 1:
            raise ExtractError("%s.%s: inconsistent return kinds %s" % (q, mname, kinds))
        return kinds[0]

    # ---- helpers -----------------------------------------------------------------------------
    def _bind_params(self, fn, call, caller_eval, entry=False, plain=False):
        """env for the callee. entry: parameters are ('param', name); else evaluated from the call site."""
        a = fn.args
        names = [x.arg for x in a.posonlyargs + a.args][(0 if plain else 1):]
        env = {}
        if entry:
            for n in names + [x.arg for x in a.kwonlyargs]:
                env[n] = [("param", n)]
            if a.vararg:
                env[a.vararg.arg] = [("param", a.vararg.arg)]
            if a.kwarg:
                env[a.kwarg.arg] = [("param", a.kwarg.arg)]
            return env
        for n in names + [x.arg for x in a.kwonlyargs]:
            env[n] = [OTHER]
        pos, extra = [], []
        for av in call.args:
            if isinstance(av, ast.Starred):
                extra += caller_eval(av.value)
                pos.append(None)
            else:
                pos.append(caller_eval(av))
        i = 0
        for p in pos:
            if p is None:
                # *args at the call site: may flow into every remaining parameter
                for n in names[i:]:
                    env[n] = _uniq(env[n] + extra)
                break
            if i < len(names):
                env[names[i]] = p
            else:
                extra += p
            i += 1
        if a.vararg:
            env[a.vararg.arg] = _uniq(extra) or [OTHER]
        for kw in call.keywords:
            v = caller_eval(kw.value)
            if kw.arg is None:
                for n in names:
                    env[n] = _uniq(env[n] + v)
            elif kw.arg in env:
                env[kw.arg] = v
        if a.kwarg:
            env[a.kwarg.arg] = [OTHER]
        return env

    def _ctor(self, clsq, call, ev):
        """abstract value of Cls(args): a Fresh object whose fields come from the __init__ parameter map"""
        attrs, from_param, _ = self.inits(clsq)
        found = self.ix.find_method(clsq, "__init__")
        fields = {}
        if found is not None:
            env = self._bind_params(found[1], call, ev)
            for a, p in from_param.items():
                if p in env:
                    fields[a] = env[p]
        return Fresh(clsq, fields)

    def _emit(self, tgt, kind, attr, node, mod):
        e = (tgt, kind, attr)
        self.effects.append(e)

    def _write(self, base, attr, node, mod):
        """`base.attr = ...` (rebinding an attribute of object `base`)"""
        if any(a == attr and base in paths for paths, a in getattr(self, "guards", [])):
            # the assignment stands under `if <base>.<attr> is None [and ...]`: it only ever names an un-named object
            real_emit = self._emit

            def guarded_emit(tg, kind, a_, node_, mod_):
                real_emit(tg, "rebind_unset" if kind == "rebind" else kind, a_, node_, mod_)
            self._emit = guarded_emit
            try:
                return self._write_plain(base, attr, node, mod)
            finally:
                del self._emit
        return self._write_plain(base, attr, node, mod)

    def _write_plain(self, base, attr, node, mod):
        if isinstance(base, tuple) and base[0] == "shallow":
            return                  # rebinding an attribute of a fresh shallow copy: the original keeps its own
        if base == SELF and getattr(self, "delegate", False) and not self.in_builder:
            self._emit("via:<receiver>", "rebind", attr, node, mod)
        elif base == SELF or base == SELFCOPY:
            self._emit("self", "rebind", attr, node, mod)
        elif isinstance(base, Fresh) or base == OTHER or base == ("none",):
            return
        elif base[0] == "attr" and base[1] == SELF:
            self._emit("via:" + base[2], "rebind", attr, node, mod)
        elif base[0] == "elem" and base[1][0] == "attr" and base[1][1] == SELF:
            self._emit("self", "nested:" + attr, base[1][2], node, mod)
        elif base[0] == "param":
            self._emit("arg:" + base[1], "rebind", attr, node, mod)
        elif base[0] == "elem" and base[1][0] == "param":
            self._emit("arg:" + base[1][1], "rebind", attr, node, mod)
        elif base[0] == "attr" and base[1][0] == "param":
            self._emit("argvia:%s:%s" % (base[1][1], base[2]), "rebind", attr, node, mod)
        else:
            raise ExtractError("%s: write through an unrecognised access path %r.%s" % (_loc(mod, node), base, attr))

    def _inplace(self, cont, node, mod):
        """the container object `cont` is mutated in place"""
        if isinstance(cont, Fresh) or cont in (OTHER, ("none",)):
            return
        if cont in (SELF, SELFCOPY):
            raise ExtractError("%s: receiver itself mutated as a container" % _loc(mod, node))
        if cont[0] == "shallow":
            return                  # the copy itself used as a container: a new object
        if cont[0] == "attr":
            b = cont[1]
            if b == SELF and getattr(self, "delegate", False) and not self.in_builder:
                return self._emit("via:<receiver>", "inplace", cont[2], node, mod)
            if b in (SELF, SELFCOPY):
                return self._emit("self", "inplace", cont[2], node, mod)
            if isinstance(b, Fresh) or b == OTHER:
                return
            if b[0] == "attr" and b[1] == SELF:
                return self._emit("via:" + b[2], "inplace", cont[2], node, mod)
            if b[0] == "elem" and b[1][0] == "attr" and b[1][1] == SELF:
                return self._emit("self", "nested:" + cont[2], b[1][2], node, mod)
            if b[0] == "param" or (b[0] == "elem" and b[1][0] == "param"):
                return self._emit("arg:" + (b[1] if b[0] == "param" else b[1][1]), "inplace", cont[2], node, mod)
            if b[0] == "attr" and b[1][0] == "param":
                return self._emit("argvia:%s:%s" % (b[1][1], b[2]), "inplace", cont[2], node, mod)
        if cont[0] == "elem":
            b = cont[1]
            if b[0] == "attr" and b[1] == SELF:
                return self._emit("self", "nested:[]", b[2], node, mod)
            if b[0] == "param":
                return self._emit("arg:" + b[1], "inplace", "[]", node, mod)
        if cont[0] == "param":
            return self._emit("arg:" + cont[1], "inplace", "*", node, mod)
        raise ExtractError("%s: in-place mutation through an unrecognised access path %r" % (_loc(mod, node), cont))

    # ---- running a function body -------------------------------------------------------------
    def _run_plain(self, ctx, mod, fn, env, depth, stack):
        """a module-level helper function called from a watched method: executed abstractly like an inlined method (no self)"""
        if depth > MAX_INLINE_DEPTH:
            raise ExtractError("inlining too deep at %s" % (stack,))
        fr = _Frame(self, ctx, None, fn, env, depth, stack, mod, False, plain=True)
        fr.block(_strip_doc(fn.body), cond=False)
        return fr.rets

    def _run_fn(self, ctx, defc, fn, env, depth, stack, top=False):
        """execute fn's body abstractly. ctx: class whose MRO resolves self.m(); defc: class defining fn.
        Returns the list of abstract return values."""
        if depth > MAX_INLINE_DEPTH:
            raise ExtractError("inlining too deep at %s" % (stack,))
        mod = self.ix.classes[defc].mod
        fr = _Frame(self, ctx, defc, fn, env, depth, stack, mod, top)
        fr.block(_strip_doc(fn.body), cond=False)
        return fr.rets


class _Frame:
    def __init__(self, an, ctx, defc, fn, env, depth, stack, mod, top, plain=False):
        self.an, self.ix = an, an.ix
        self.ctx, self.defc, self.fn, self.env, self.depth, self.stack, self.mod, self.top = ctx, defc, fn, env, depth, stack, mod, top
        self.selfname = fn.args.args[0].arg if (fn.args.args and not plain) else None
        self.rets = []
        self.mute = 0

    # -- expressions ---------------------------------------------------------------------------
    def ev(self, e):
        """abstract values of expression e; also performs the effects of the calls it contains"""
        an = self.an
        if e is None:
            return [("none",)]
        if isinstance(e, ast.Constant):
            return [("none",)] if e.value is None else [OTHER]
        if isinstance(e, ast.Name):
            if e.id in FORBIDDEN_NAMES:
                raise ExtractError("%s: use of %s" % (_loc(self.mod, e), e.id))
            return list(self.env.get(e.id, [OTHER]))
        if isinstance(e, ast.Attribute):
            if e.attr in FORBIDDEN_NAMES:
                raise ExtractError("%s: use of %s" % (_loc(self.mod, e), e.attr))
            out = []
            for b in self.ev(e.value):
                if isinstance(b, Fresh):
                    out += b.fields.get(e.attr, [OTHER])
                elif b in (OTHER, ("none",)) or (isinstance(b, tuple) and b[0] == "callcopy"):
                    out.append(OTHER)
                elif isinstance(b, tuple) and b[0] == "shallow":
                    out.append(("attr", b[1], e.attr))      # the copy shares the original's attribute values
                elif b == SELFCOPY:
                    out.append(("attr", SELFCOPY if getattr(self.an, "delegate", False) else SELF, e.attr))
                else:
                    out.append(("attr", b, e.attr))
            return _uniq(out)
        if isinstance(e, ast.Subscript):
            self.ev(e.slice)
            out = []
            for b in self.ev(e.value):
                out.append(OTHER if (isinstance(b, Fresh) or b in (OTHER, ("none",))) else
                           (("elem", b) if not isinstance(e.slice, ast.Slice) else OTHER))
            return _uniq(out)
        if isinstance(e, ast.IfExp):
            self.ev(e.test)
            return _uniq(self.ev(e.body) + self.ev(e.orelse))
        if isinstance(e, ast.BoolOp):
            out = []
            for v in e.values:
                out += self.ev(v)
            return _uniq(out)
        if isinstance(e, ast.NamedExpr):
            v = self.ev(e.value)
            self.env[e.target.id] = v
            return v
        if isinstance(e, ast.Call):
            return self.call(e)
        if isinstance(e, (ast.ListComp, ast.SetComp, ast.GeneratorExp, ast.DictComp)):
            saved = dict(self.env)
            for g in e.generators:
                self.bind_target(g.target, self.elems(self.ev(g.iter)))
                for c in g.ifs:
                    self.ev(c)
            if isinstance(e, ast.DictComp):
                self.ev(e.key); self.ev(e.value)
            else:
                self.ev(e.elt)
            self.env = saved
            return [OTHER]
        if isinstance(e, ast.Lambda):
            for n in ast.walk(e.body):
                if isinstance(n, (ast.Attribute,)) and isinstance(n.ctx, ast.Store):
                    raise ExtractError("%s: store inside lambda" % _loc(self.mod, e))
            return [OTHER]
        if isinstance(e, ast.Starred):
            return self.ev(e.value)
        # generic: evaluate children for their effects; the value is a fresh/immutable object
        for ch in ast.iter_child_nodes(e):
            if isinstance(ch, ast.expr):
                self.ev(ch)
            elif isinstance(ch, ast.keyword):
                self.ev(ch.value)
        return [OTHER]

    def elems(self, vals):
        out = []
        for b in vals:
            if isinstance(b, Fresh) or b in (OTHER, ("none",)):
                out.append(OTHER)
            elif b[0] == "param":
                out.append(b)                      # elements of a parameter are treated as the parameter
            else:
                out.append(("elem", b))
        return _uniq(out) or [OTHER]

    def attr_kind(self, base, attr):
        """kind of attribute `attr` of the object `base` when its class is known (receiver), else None"""
        cls = self.obj_class(base)
        if cls is None:
            return None
        return self.an.inits(cls)[0].get(attr)

    def obj_class(self, base):
        if base in (SELF, SELFCOPY):
            return self.an.entry_cls
        if isinstance(base, Fresh):
            return base.cls
        if isinstance(base, tuple) and base[0] == "attr":
            oc = self.obj_class(base[1])
            if oc is not None:
                return self.an.inits(oc)[2].get(base[2])
        return None

    def call(self, e):
        an, ix = self.an, self.ix
        f = e.func
        argvals = None

        def args_eval():
            out = []
            for a in e.args:
                out += self.ev(a.value if isinstance(a, ast.Starred) else a)
            for k in e.keywords:
                out += self.ev(k.value)
            return out
        if isinstance(f, ast.Name):
            if f.id in FORBIDDEN_NAMES:
                raise ExtractError("%s: call of %s" % (_loc(self.mod, e), f.id))
            clsq = ix.resolve(self.mod, f)
            if clsq is not None:
                av = self.an._ctor(clsq, e, self.ev)
                return [av]
            if f.id == "copy" and len(e.args) == 1 and not e.keywords and f.id not in self.env:
                # copy.copy: a NEW object whose attributes still point to the original's values - rebinding an attribute of
                # the copy is harmless, mutating one of its containers in place mutates the original's container
                return [("shallow", v) if not (isinstance(v, Fresh) or v in (OTHER, ("none",))) else OTHER
                        for v in self.ev(e.args[0])] or [OTHER]
            helper = ix.functions.get(self.mod, {}).get(f.id)
            if helper is not None and f.id not in self.env and f.id not in PURE_FUNCS and not helper.decorator_list:
                if ("fn", self.mod, f.id) in self.stack:
                    args_eval()
                    return [OTHER]
                env = self.an._bind_params(helper, e, self.ev, plain=True)
                if self.mute:
                    return [OTHER]
                rets = self.an._run_plain(self.ctx, self.mod, helper, env, self.depth + 1, self.stack + [("fn", self.mod, f.id)])
                out = []
                for vals_, _ in rets:
                    out += vals_
                return _uniq(out) or [("none",)]
            vals = args_eval()
            if f.id in PURE_FUNCS or f.id in self.env:
                return [OTHER]
            tracked = [v for v in vals if not (isinstance(v, Fresh) or v in (OTHER, ("none",)))]
            if tracked:
                raise ExtractError("%s: receiver/argument state passed to unknown function %s(...)" % (_loc(self.mod, e), f.id))
            return [OTHER]
        if isinstance(f, ast.Attribute):
            m = f.attr
            if m in FORBIDDEN_NAMES:
                raise ExtractError("%s: call of %s" % (_loc(self.mod, e), m))
            # Cls.m(self, ...): explicit call of a (parent) class's method on the receiver
            ucls = ix.resolve(self.mod, f.value) if isinstance(f.value, (ast.Name, ast.Attribute)) else None
            if ucls is not None and e.args and not isinstance(e.args[0], ast.Starred) and ix.find_method(ucls, m) is not None:
                first = self.ev(e.args[0])
                this = self.env.get(self.selfname, [])
                if first and all(v in (SELF, SELFCOPY) or (v != OTHER and v in this) for v in first) and ucls in ix.classes[self.ctx].mro:
                    e2 = ast.Call(func=f, args=e.args[1:], keywords=e.keywords)
                    ast.copy_location(e2, e)
                    start = ix.classes[self.ctx].mro
                    prev = start[start.index(ucls) - 1] if start.index(ucls) > 0 else None
                    return self.method_call(first, self.ctx, m, e2, after=prev)
            # super().m(...)
            if _is_super_call(f.value):
                this = self.env.get(self.selfname, [OTHER])
                return self.method_call(this, self.ctx, m, e, after=self.defc)
            bases = self.ev(f.value)
            out = []
            evaluated_args = False
            for b in bases:
                cls = None
                if self.selfname and b != OTHER and b in self.env.get(self.selfname, []):
                    cls = self.ctx
                elif b in (SELF, SELFCOPY):
                    cls = an.entry_cls
                else:
                    cls = self.obj_class(b)
                if cls is not None and ix.find_method(cls, m) is not None:
                    out += self.method_call([b], cls, m, e)
                    evaluated_args = True
                    continue
                if isinstance(b, Fresh) or b in (OTHER, ("none",)):
                    continue
                if cls is not None and m in self.an.inits(cls)[0] and self.an.inits(cls)[0][m] in ("scalar", "param"):
                    continue                    # calling a class/callable stored in an attribute (self._wrapper_cls(v))
                if m in MUTATORS:
                    self.an_inplace(b, e)
                    continue
                if m in PURE_METHODS:
                    continue
                raise ExtractError("%s: call of unknown method .%s() on tracked object %r" % (_loc(self.mod, e), m, b))
            if not evaluated_args:
                args_eval()
            return _uniq(out) or [OTHER]
        self.ev(f)
        args_eval()
        return [OTHER]

    def an_inplace(self, b, node):
        if not self.mute:
            self.an._inplace(b, node, self.mod)

    def an_write(self, b, attr, node):
        if not self.mute:
            self.an._write(b, attr, node, self.mod)

    def method_call(self, this_vals, cls, m, e, after=None):
        """inline method m (resolved in cls's MRO) with `self` bound to this_vals"""
        ix = self.ix
        found = ix.find_method(cls, m, after)
        if found is None:
            if m in PURE_METHODS or m in ("__init__",):
                for a in e.args:
                    self.ev(a)
                return [OTHER]
            raise ExtractError("%s: method %s not found in the MRO of %s" % (_loc(self.mod, e), m, cls))
        defc, fn = found
        is_static = any(isinstance(d, ast.Name) and d.id in ("staticmethod", "classmethod") for d in fn.decorator_list)
        is_prop = any(isinstance(d, ast.Name) and d.id == "property" for d in fn.decorator_list)
        if (defc, m) in self.stack:
            for a in e.args:
                self.ev(a)
            return [OTHER]                      # recursion: effects already accounted for by the outer activation
        env = self.an._bind_params(fn, e, self.ev) if not is_static else {}
        if is_static:
            for a in e.args:
                self.ev(a)
            return [OTHER]
        isb = ix.is_builder(fn)
        env[fn.args.args[0].arg] = list(this_vals)
        if self.mute:
            return [OTHER]
        on_receiver = all(v in (SELF, SELFCOPY) for v in this_vals) and self.an.entry_copies
        if isb and not on_receiver:
            # @builder call on some other object (or from a non-copying entry point): the body runs on a copy of that
            # object, so only its writes to arguments matter here; the (class, method) pair itself has its own table row
            env[fn.args.args[0].arg] = [Fresh(cls, {})]
            self.an._run_fn(cls, defc, fn, env, self.depth + 1, self.stack + [(defc, m)])
            if isb and len(this_vals) == 1 and isinstance(this_vals[0], tuple) and this_vals[0][0] == "attr" \
                    and this_vals[0][1] == SELF:
                return [("callcopy", this_vals[0][2], m)]       # result of the @builder call self.<attr>.m(...)
            return [OTHER]
        if isb:
            self.an.in_builder += 1
            self.an.builder_calls += 1
        try:
            rets = self.an._run_fn(cls, defc, fn, env, self.depth + 1, self.stack + [(defc, m)])
        finally:
            if isb:
                self.an.in_builder -= 1
        if isb:
            # a @builder call works on a further copy; for the receiver chain that copy is as fresh as the first one
            return [SELFCOPY if v in (SELF, SELFCOPY) else OTHER for v in this_vals]
        out = []
        for vals, _ in rets:
            out += vals
        return _uniq(out) or [("none",)]

    # -- statements ----------------------------------------------------------------------------
    def bind_target(self, t, vals):
        if isinstance(t, ast.Name):
            self.env[t.id] = list(vals)
        elif isinstance(t, (ast.Tuple, ast.List)):
            for x in t.elts:
                self.bind_target(x.value if isinstance(x, ast.Starred) else x, self.elems(vals))
        else:
            self.store(t, vals, aug=False, node=t)

    def store(self, t, vals, aug, node):
        if isinstance(t, ast.Name):
            if aug:
                for b in self.env.get(t.id, []):
                    if not (isinstance(b, Fresh) or b in (OTHER, ("none",))):
                        # `x += ...` on a local alias of a tracked container mutates it in place (list) or rebinds (immutable)
                        if b[0] == "param":
                            continue            # rebinding/extending a parameter name: tuples (*args) or caller's list
                        self.an_inplace(b, node)
            else:
                self.env[t.id] = list(vals) if not self.cond else _uniq(self.env.get(t.id, []) + list(vals))
            return
        if isinstance(t, ast.Attribute):
            for b in self.ev(t.value):
                if aug:
                    k = self.attr_kind(b, t.attr) if b in (SELF, SELFCOPY) or isinstance(b, tuple) else None
                    if b in (SELF, SELFCOPY) or (isinstance(b, tuple) and b[0] == "attr" and self.obj_class(b) is not None) \
                            or self.obj_class(b) is not None:
                        if k in ("list", "set", "dict"):
                            self.an_inplace(("attr", SELF if b == SELFCOPY else b, t.attr), node)
                        elif k == "scalar":
                            self.an_write(b, t.attr, node)
                        else:
                            raise ExtractError("%s: augmented assignment to %s of unknown kind (%r)" % (_loc(self.mod, node), ast.unparse(t), k))
                    else:
                        self.an_write(b, t.attr, node)
                else:
                    self.an_write(b, t.attr, node)
            return
        if isinstance(t, ast.Subscript):
            self.ev(t.slice)
            for b in self.ev(t.value):
                self.an_inplace(b, node)
            return
        if isinstance(t, (ast.Tuple, ast.List)):
            for x in t.elts:
                self.store(x.value if isinstance(x, ast.Starred) else x, self.elems(vals), aug, node)
            return
        raise ExtractError("%s: unrecognised assignment target %s" % (_loc(self.mod, node), ast.unparse(t)))

    def block(self, stmts, cond):
        prev = getattr(self, "cond", False)
        self.cond = cond
        for s in stmts:
            self.stmt(s)
        self.cond = prev

    def stmt(self, s):
        if isinstance(s, ast.Assign):
            v = self.ev(s.value)
            for t in s.targets:
                self.store(t, v, aug=False, node=s)
        elif isinstance(s, ast.AnnAssign):
            if s.value is not None:
                self.store(s.target, self.ev(s.value), aug=False, node=s)
        elif isinstance(s, ast.AugAssign):
            self.ev(s.value)
            self.store(s.target, [OTHER], aug=True, node=s)
        elif isinstance(s, ast.Expr):
            self.ev(s.value)
        elif isinstance(s, ast.Return):
            v = self.ev(s.value) if s.value is not None else [("none",)]
            self.rets.append((v, s.value))
            if self.top:
                self.an.returns.append((v, s.value))
        elif isinstance(s, ast.If):
            self.ev(s.test)
            # facts the body may rely on: the test, or each conjunct of an `and`, of the form  X.attr is None
            facts = []
            conj = s.test.values if isinstance(s.test, ast.BoolOp) and isinstance(s.test.op, ast.And) else [s.test]
            for t in conj:
                if isinstance(t, ast.Compare) and len(t.ops) == 1 and isinstance(t.ops[0], ast.Is) \
                        and isinstance(t.comparators[0], ast.Constant) and t.comparators[0].value is None \
                        and isinstance(t.left, ast.Attribute):
                    saved = self.mute
                    self.mute += 1          # evaluating the path again must not emit anything
                    try:
                        paths = self.ev(t.left.value)
                    finally:
                        self.mute = saved
                    facts.append(([p_ for p_ in paths if p_ not in (OTHER, ("none",))], t.left.attr))
            self.an.guards += facts
            try:
                self.block(s.body, True)
            finally:
                del self.an.guards[len(self.an.guards) - len(facts):]
            self.block(s.orelse, True)
        elif isinstance(s, (ast.For, ast.While)):
            if isinstance(s, ast.For):
                it = self.ev(s.iter)
            else:
                self.ev(s.test)
            # first pass (muted) lets loop-carried aliases settle, second pass emits the effects
            nrets = len(self.rets)
            ntop = len(self.an.returns)
            self.mute += 1
            if isinstance(s, ast.For):
                self.bind_target(s.target, self.elems(it))
            self.block(s.body, True)
            self.mute -= 1
            del self.rets[nrets:]
            del self.an.returns[ntop:]
            if isinstance(s, ast.For):
                self.bind_target(s.target, self.elems(it))
            self.block(s.body, True)
            self.block(s.orelse, True)
        elif isinstance(s, ast.Try):
            self.block(s.body, True)
            for h in s.handlers:
                self.block(h.body, True)
            self.block(s.orelse, True)
            self.block(s.finalbody, True)
        elif isinstance(s, ast.With):
            for it in s.items:
                v = self.ev(it.context_expr)
                if it.optional_vars is not None:
                    self.bind_target(it.optional_vars, v)
            self.block(s.body, self.cond)
        elif isinstance(s, ast.Raise):
            if s.exc is not None:
                self.ev(s.exc)
        elif isinstance(s, ast.Assert):
            self.ev(s.test)
        elif isinstance(s, ast.Delete):
            for t in s.targets:
                if isinstance(t, ast.Name):
                    self.env.pop(t.id, None)
                elif isinstance(t, ast.Attribute):
                    for b in self.ev(t.value):
                        self.an_write(b, t.attr, s)
                elif isinstance(t, ast.Subscript):
                    for b in self.ev(t.value):
                        self.an_inplace(b, s)
                else:
                    raise ExtractError("%s: unrecognised del target" % _loc(self.mod, s))
        elif isinstance(s, (ast.Pass, ast.Break, ast.Continue, ast.Import, ast.ImportFrom)):
            pass
        elif isinstance(s, (ast.FunctionDef, ast.ClassDef, ast.Global, ast.Nonlocal, ast.AsyncFunctionDef)):
            raise ExtractError("%s: nested definition / global in a watched method" % _loc(self.mod, s))
        else:
            raise ExtractError("%s: unrecognised statement %s" % (_loc(self.mod, s), type(s).__name__))


# ----------------------------------------------------------------------------------------------
# the decorator itself
# ----------------------------------------------------------------------------------------------
EXPECTED_DECORATOR = (
    "def _copy(self, *args, **kwargs):\n"
    "    self_copy = copy.copy(self) if getattr(self, 'immutable', True) else self\n"
    "    result = func(self_copy, *args, **kwargs)\n"
    "    if result is None:\n"
    "        return self_copy\n"
    "    return result"
)


def check_decorator(ix):
    tree = ix.trees["utils"]
    fn = [n for n in tree.body if isinstance(n, ast.FunctionDef) and n.name == "builder"]
    if len(fn) != 1:
        raise ExtractError("pypika/utils.py: def builder not found")
    body = [s for s in _strip_doc(fn[0].body)]
    imports = [s for s in body if isinstance(s, ast.Import)]
    if [a.name for s in imports for a in s.names] != ["copy"]:
        raise ExtractError("pypika/utils.py: builder(): expected a single `import copy`")
    rest = [s for s in body if not isinstance(s, ast.Import)]
    if len(rest) != 2 or not isinstance(rest[0], ast.FunctionDef) or not isinstance(rest[1], ast.Return) \
            or not isinstance(rest[1].value, ast.Name) or rest[1].value.id != rest[0].name:
        raise ExtractError("pypika/utils.py: builder(): unexpected shape")
    inner = rest[0]
    inner.body = _strip_doc(inner.body)
    got = ast.unparse(inner)
    # harmless renamings of the inner function are tolerated
    got = got.replace("def %s(" % inner.name, "def _copy(", 1)
    if got != EXPECTED_DECORATOR:
        raise ExtractError("pypika/utils.py:%d: the @builder decorator no longer has the modelled shape "
                           "(copy.copy(self) unless immutable is False; run on the copy; return it when the body returns None):\n%s"
                           % (inner.lineno, got))
    # `copy` used by the __copy__ methods must be copy.copy
    for mod in ("queries", "dialects"):
        ok = any(isinstance(n, ast.ImportFrom) and n.module == "copy" and any(a.name == "copy" and a.asname is None for a in n.names)
                 for n in ix.trees[mod].body)
        if not ok:
            raise ExtractError("pypika/%s.py: `from copy import copy` not found" % mod)


# ----------------------------------------------------------------------------------------------
# whole table
# ----------------------------------------------------------------------------------------------
def build_table(repo, strict=True):
    """strict=False (used only to keep the search for a failing input going after a failed extraction): problems are
    swallowed, an unanalysable method gets an empty effect list.
    -> list of class records:
       {"cls": qual, "name": short, "attrs": [(attr, kind)], "recopy": [attr] | None,
        "methods": [{"name", "copies": bool, "effects": [(tgt, kind, attr)], "ret": tuple}]}"""
    ix = Index(repo)
    if strict:
        check_decorator(ix)
    an = Analyzer(ix)

    def guarded(f, default):
        if strict:
            return f()
        try:
            return f()
        except ExtractError:
            return default
    table = []
    for q in sorted(ix.classes):
        ci = ix.classes[q]
        meths = {}
        for c in reversed(ci.mro):
            for mname, fn in ix.classes[c].methods.items():
                meths[mname] = None
        entries = []
        for mname in sorted(meths):
            c, fn = ix.find_method(q, mname)
            if ix.is_builder(fn):
                entries.append((mname, True))
            elif mname in EXTRA_ENTRY.get(q, []):
                entries.append((mname, False))
            elif not mname.startswith("_") and any(mname in ix.classes[c2].methods and ix.is_builder(ix.classes[c2].methods[mname])
                                                   for c2 in ci.mro[ci.mro.index(c) + 1:]):
                entries.append((mname, "delegate"))     # undecorated override of a chaining call
        if not entries:
            continue
        attrs, _, _ = an.inits(q)
        rec = {"cls": q, "name": ci.name, "attrs": list(attrs.items()), "recopy": guarded(lambda: copy_attrs(ix, q), None),
               "methods": []}
        for mname, copies in entries:
            effects, ret = guarded(lambda: an.analyse(q, mname, delegate=(copies == "delegate")), ([], ("self",)))
            rec["methods"].append({"name": mname, "copies": bool(copies), "effects": effects, "ret": ret,
                                   "delegate": copies == "delegate"})
        table.append(rec)
    # composite chaining calls  recv.m(...).w(...)  where m returns a wrapper (Joiner) whose entry point w finishes the
    # call on the copy held by the wrapper: one row "m>w" whose effects are m's followed by w's, re-targeted
    for rec in table:
        extra = []
        for m in rec["methods"]:
            if m["copies"] and m["ret"][0] == "new" and m["ret"][1] in EXTRA_ENTRY:
                wq = m["ret"][1]
                flds = dict(m["ret"][2])
                for wm in EXTRA_ENTRY[wq]:
                    weffects, wret = guarded(lambda: an.analyse(wq, wm), ([], ("via", "query")))
                    effs = list(m["effects"])
                    for tg, kind, attr in weffects:
                        if tg == "self":
                            continue                      # the wrapper itself is a fresh object
                        k, _, rest = tg.partition(":")
                        if k == "via" and flds.get(rest) == "self":
                            effs.append(("self", kind, attr))
                        elif k == "via" and flds.get(rest, "").startswith("arg:"):
                            effs.append((flds[rest], kind, attr))
                        elif strict:
                            raise ExtractError("%s.%s>%s: cannot re-target effect %r" % (rec["cls"], m["name"], wm, (tg, kind, attr)))
                    if wret[0] == "call" and flds.get(wret[1]) == "self":
                        # the wrapper finishes with  return self.<copy>.m2(...)  (a @builder call on the copy it holds):
                        # m2's effects on its receiver are effects on (a further copy of) the copy; what m2 does to its
                        # own parameters was already attributed through the wrapper's fields above
                        ceffs, cret = guarded(lambda: an.analyse(rec["cls"], wret[2]), ([], ("self",)))
                        if strict and cret != ("self",):
                            raise ExtractError("%s.%s>%s: delegated method returns %r" % (rec["cls"], m["name"], wm, cret))
                        effs += [e for e in ceffs if e[0] == "self"]
                    elif strict and not (wret[0] == "via" and flds.get(wret[1]) == "self"):
                        raise ExtractError("%s.%s>%s: unexpected return %r" % (rec["cls"], m["name"], wm, wret))
                    extra.append({"name": "%s>%s" % (m["name"], wm), "copies": True, "effects": _uniq(effs), "ret": ("self",),
                                  "composite": (m["name"], wq, wm)})
        rec["methods"] += extra
    return table


if __name__ == "__main__":
    import sys
    for rec in build_table(sys.argv[1] if len(sys.argv) > 1 else "/repo"):
        print(rec["cls"], "recopy=", rec["recopy"])
        for m in rec["methods"]:
            print("    %-22s %s %s -> %s" % (m["name"], "B" if m["copies"] else "-", m["effects"], m["ret"]))


# ----------------------------------------------------------------------------------------------
# Gallina emission
# ----------------------------------------------------------------------------------------------
def _cs(s):
    if not all(32 <= ord(c) < 127 and c != '"' for c in s):
        raise ExtractError("unexpected character in identifier %r" % s)
    return '"%s"' % s


def _tgt(t):
    if t == "self":
        return "TSelf"
    k, _, rest = t.partition(":")
    if k == "via":
        return "(TVia %s)" % _cs(rest)
    if k == "arg":
        return "(TArg %s)" % _cs(rest)
    if k == "argvia":
        p, _, a = rest.partition(":")
        return "(TArgVia %s %s)" % (_cs(p), _cs(a))
    raise ExtractError("bad target " + t)


def _kind(k):
    if k == "rebind":
        return "KRebind"
    if k == "rebind_unset":
        return "KRebindUnset"
    if k == "inplace":
        return "KInPlace"
    if k.startswith("nested:"):
        return "(KNested %s)" % _cs(k[7:])
    raise ExtractError("bad kind " + k)


def _ret(r):
    if r[0] == "self":
        return "RSelf"
    if r[0] == "new":
        return "(RNew %s)" % _cs(r[1])
    if r[0] == "via":
        return "(RVia %s)" % _cs(r[1])
    if r[0] == "call":
        return "(RCall %s %s)" % (_cs(r[1]), _cs(r[2]))
    raise ExtractError("bad ret %r" % (r,))


def emit_coq(table):
    out = ["(* GENERATED by harness/c01/extract.py from pypika/{utils,terms,queries,dialects,functions,analytics}.py",
           "   (mode A: fail-closed ast walk).  Do not edit: rewritten on every ./check C01 run. *)",
           "From PV Require Import Base Heap.", "",
           "Definition class_table : table := ["]
    rows = []
    for rec in table:
        ms = []
        for m in rec["methods"]:
            effs = "; ".join("mkEff %s %s %s" % (_tgt(t), _kind(k), _cs(a)) for t, k, a in m["effects"])
            ms.append("    mkMeth %s %s [%s] %s" % (_cs(m["name"]), "true" if m["copies"] else "false", effs, _ret(m["ret"])))
        rows.append("  mkClass %s [%s] [\n%s\n  ]" % (_cs(rec["cls"]), "; ".join(_cs(a) for a in (rec["recopy"] or [])),
                                                     ";\n".join(ms)))
    out.append(";\n".join(rows))
    out.append("].")
    out.append("")
    out.append("(* classes with an explicit __copy__ : %s *)" % ", ".join(r["cls"] for r in table if r["recopy"] is not None))
    return "\n".join(out) + "\n"
