"""Dev-time helper (never run by ./check): rewrite coq/lemmas/HeapExpected.v from the table extracted from harness.lib.REPO.
Run only for INTENDED source changes:  PYTHONPATH=/repo:/verif /venv/bin/python -m harness.c01.regen_expected"""
import re
from harness import lib
from harness.c01 import extract


def main():
    t = extract.build_table(lib.REPO)

    def esafe(rec, m, e):
        rc = set(rec["recopy"] or [])
        tg, k, a = e
        return m["copies"] and tg == "self" and (k in ("rebind", "rebind_unset") or (k == "inplace" and a in rc))
    safe_l, unsafe_l, ueffs = [], [], []
    for rec in t:
        for m in rec["methods"]:
            ok = m["copies"] and all(esafe(rec, m, e) for e in m["effects"])
            (safe_l if ok else unsafe_l).append((rec["cls"], m["name"]))
            ueffs += [(rec["cls"], m["name"], e) for e in m["effects"] if not esafe(rec, m, e)]
    core = [p for p in safe_l if p[0].split(".")[0] in ("terms", "queries", "dialects", "array", "type_conversion") or p[0] == "functions.DistinctOptionFunction"]
    path = lib.VERIF + "/coq/lemmas/HeapExpected.v"
    old = open(path).read()
    oldpairs = set(re.findall(r'\("([\w.]+)", "([\w>]+)"\)', old.split("Definition expected_unsafe ")[0]))
    print("safe %d (core %d), unsafe %d, unsafe effects %d" % (len(safe_l), len(core), len(unsafe_l), len(ueffs)))
    print("new core pairs:", sorted(set(core) - oldpairs))
    print("gone:", sorted(oldpairs - set(core)))

    def wrap(items):
        out, line = [], "  "
        for x in items:
            if len(line) + len(x) > 110:
                out.append(line)
                line = "  "
            line += x + "; "
        out.append(line.rstrip("; "))
        return "\n".join(out)
    head = old[:old.index("Definition expected_safe")]
    src = head + "Definition expected_safe : list (string * string) := [\n%s\n].\n\nDefinition expected_unsafe : list (string * string) := [\n%s\n].\n\nDefinition expected_unsafe_effs : list ueff := [\n%s\n].\n" % (
        wrap(['("%s", "%s")' % p for p in core]), wrap(['("%s", "%s")' % p for p in unsafe_l]),
        wrap(['("%s", "%s", mkEff %s %s "%s")' % (c, m, extract._tgt(e[0]), extract._kind(e[1]), e[2]) for c, m, e in ueffs]))
    open(path, "w").write(src)


if __name__ == "__main__":
    main()
