"""History perturbation ("purity shim"), applied by the driver to a fixed share of the generated cases of every property.

Rendering is specified (and modelled in Coq) as a pure function of the object that was built and of the rendering
conventions; building is specified as a function of the call sequence alone.  A change that memoises rendered text or
derived data on an object (a cached alias set copied by __copy__, an Interval that remembers the first dialect, a
ValueWrapper that remembers its literal text), or that stores a one-shot iterator, is invisible to a harness that builds
every object once and renders it once.  For a case that carries the key "_pre" the driver therefore runs the plug-in's
run_impl under this shim, which (only at the outermost call level, never recursively)

  * renders the receiver with the default conventions before every chaining (@builder) call on a statement builder
    ("log the statement, then go on building it"), and
  * builds and renders, before every such call, a decoy: another statement of the receiver's class over the receiver's
    FROM tables, built in place (immutable=False) with a star per table, an aliased column, WHERE / GROUP BY / ORDER BY /
    LIMIT / OFFSET (state that the class or the module shares between instances - a class-level container written in
    place - is polluted by the decoy and shows in the statement under test),
  * renders every statement first with a private parameter collector ("prepare, then log") and under foreign conventions (back-tick identifiers, double-quoted strings, AS keyword) and
    then once more under the very conventions that were asked for, before the rendering that is returned.

For a case whose "_pre" key is 2 (a fixed share of the perturbed cases, VERIF_PURITY_CLONE_SHARE) the rendering that is
returned is, in addition, the rendering of a *clone* of the statement (alternately copy.deepcopy and a pickle round
trip).  A clone is structurally the object it was made from (sharing inside the statement is preserved by both
mechanisms), and the model renders structure, so state that a clone shares with its origin or loses (a class-level or
module-level container, a list that __deepcopy__/__reduce__/__getstate__ forgets, derived data cached on one object and
read through another) shows up the same way.  When cloning itself raises (harness-local classes that cannot be pickled,
very deep chains) the original object is rendered.  Receivers of builder calls are deliberately NOT replaced by clones:
pypika writes the invented alias of a sub-query into the caller's object when it is joined (open C01 finding), and
statements that selected a field of that sub-query before joining it rely on this sharing; a clone in between makes
the unchanged code render "None"."a" (tried, three C04 alarms on the unchanged tree, removed as a false alarm of the shim).

Nothing else changes: the outcome is compared with the same Coq model and judged by the same oracle as for any other
case, so state that leaks from one rendering into the next, or from a rendered intermediate builder into the statements
derived from it, shows up as a correspondence mismatch or an oracle violation whose replay (the case, with its "_pre"
key) reproduces it.  The shim lives in the harness process only; /repo is not touched.

A plug-in opts out with PURITY_SHIM = False (for example when it counts get_sql calls with sentinel terms)."""
import contextlib
import copy as _copy_mod
import pickle as _pickle

# plug-ins whose own instrumentation observes the rendering calls themselves (the shim's extra renderings would be
# counted / recorded as if the statement under test had made them); they carry their own re-render dimension instead
OPT_OUT = {
    "C01": "observes the object heap before/after every call (extra renderings are not part of the recorded history)",
    "C11": "records the keyword arguments arriving at every operand's get_sql",
    "C20": "counts get_sql calls on sentinel elements (every element rendered once)",
}

_ST = {"on": False, "depth": 0, "patched": False, "pre": 0, "mid": 0, "clone": False, "cloned": 0, "clone_failed": 0, "flip": 0, "decoys": 0}


def _clone(obj):
    """a structural clone of obj, or obj itself when it cannot be cloned"""
    _ST["flip"] += 1
    try:
        c = _copy_mod.deepcopy(obj) if _ST["flip"] % 2 else _pickle.loads(_pickle.dumps(obj))
        if type(c) is not type(obj):
            raise TypeError("clone changed class")
        _ST["cloned"] += 1
        return c
    except BaseException as e:   # noqa
        if isinstance(e, (KeyboardInterrupt, SystemExit)):
            raise
        _ST["clone_failed"] += 1
        return obj
FOREIGN = dict(quote_char="`", secondary_quote_char='"', as_keyword=True)


def _classes():
    import pypika.queries as Q
    import pypika.dialects  # noqa: F401  (subclasses register themselves)
    seen, out = set(), []
    stack = [Q.QueryBuilder, Q._SetOperation, Q.CreateQueryBuilder, Q.CreateIndexBuilder, Q.DropQueryBuilder]
    while stack:
        c = stack.pop()
        if c in seen:
            continue
        seen.add(c)
        out.append(c)
        stack.extend(c.__subclasses__())
    return out


def _wrap_get_sql(orig):
    def get_sql(self, *a, **kw):
        if not _ST["on"] or _ST["depth"] > 0:
            return orig(self, *a, **kw)
        _ST["depth"] += 1
        try:
            _ST["pre"] += 1
            try:
                orig(self, *a, **dict({k: v for k, v in kw.items() if k != "parameter"}, **FOREIGN))
            except Exception:   # noqa
                pass
            try:      # "prepare the statement, then log its text": a collector's rendering first, with a private collector
                from pypika.terms import QmarkParameter
                orig(self, *a, **dict({k: v for k, v in kw.items() if k != "parameter"}, parameter=QmarkParameter()))
            except Exception:   # noqa
                pass
            if "parameter" not in kw:     # a collector would receive the values twice
                try:
                    orig(self, *a, **kw)
                except Exception:   # noqa
                    pass
            return orig(_clone(self) if _ST["clone"] else self, *a, **kw)
        finally:
            _ST["depth"] -= 1
    get_sql.__wrapped_by_purity__ = True
    return get_sql


def _decoy(b):
    """an unrelated statement of the same class over the same tables, built in place (immutable=False: no copy is made, so
    whatever the calls write lands on the decoy itself - or on state the class shares) and rendered"""
    from pypika.queries import Table
    tabs = [t for t in list(getattr(b, "_from", []) or []) if isinstance(t, Table)]
    if not tabs:
        return
    d = type(b)(immutable=False)
    for t in tabs:
        d.from_(t)
    for t in tabs:
        d.select(t.star)
    d.select(tabs[0].decoy_col.as_("decoy_alias"))
    d.where(tabs[0].decoy_col == "decoy'value").groupby(tabs[0].decoy_col).orderby(tabs[0].decoy_col).limit(7).offset(3)
    d.get_sql(**FOREIGN)
    _ST["decoys"] += 1


def _wrap_builder(orig):
    def call(self, *a, **kw):
        if _ST["on"] and _ST["depth"] == 0:
            _ST["depth"] += 1
            try:
                _ST["mid"] += 1
                str(self)
            except Exception:   # noqa
                pass
            try:
                _decoy(self)
            except Exception:   # noqa
                pass
            finally:
                _ST["depth"] -= 1
        return orig(self, *a, **kw)
    call.__wrapped_by_purity__ = True
    call.__name__ = getattr(orig, "__name__", "call")
    return call


def _patch():
    if _ST["patched"]:
        return
    for c in _classes():
        for name, f in list(vars(c).items()):
            if getattr(f, "__wrapped_by_purity__", False) or not callable(f) or isinstance(f, (staticmethod, classmethod, type)):
                continue
            if name == "get_sql":
                setattr(c, name, _wrap_get_sql(f))
            elif not name.startswith("_") and getattr(f, "__name__", "") == "_copy" and getattr(f, "__module__", "") == "pypika.utils":
                setattr(c, name, _wrap_builder(f))      # a @builder method
    _ST["patched"] = True


@contextlib.contextmanager
def perturbed(on=True):
    """on: falsy = no perturbation, 1 = extra renderings, 2 = extra renderings and clones"""
    if not on:
        yield
        return
    _patch()
    prev = _ST["on"], _ST["clone"]
    _ST["on"], _ST["depth"], _ST["clone"] = True, 0, (on == 2)
    try:
        yield
    finally:
        _ST["on"], _ST["clone"] = prev


def counters():
    return {"pre_renderings": _ST["pre"], "intermediate_renderings": _ST["mid"], "clones": _ST["cloned"],
            "clones_not_possible": _ST["clone_failed"], "decoy_statements": _ST["decoys"]}
